"""E2: statement-level control-flow graph, dominators, guards, path queries.

Nodes are simple statements, compound-statement headers and synthetic branch
nodes (one per outgoing branch of a test, so that "edge dominance" is ordinary
node dominance).  `finally` bodies are duplicated per exit kind.  Exception
edges go from every may-raise statement to the handlers of the enclosing `try`
(over-approximation: any handler may be reached) and onwards to the outer
handlers / the exceptional exit unless a catch-all handler is present.
"""

import ast

from .report import AnalysisError


class Node:
    __slots__ = ("id", "kind", "stmt", "expr", "polarity", "succ", "pred", "tag")

    def __init__(self, nid, kind, stmt=None, expr=None, polarity=None, tag=None):
        self.id = nid
        self.kind = kind
        self.stmt = stmt
        self.expr = expr
        self.polarity = polarity
        self.succ = []   # (node, label)
        self.pred = []   # (node, label)
        self.tag = tag

    @property
    def line(self):
        for x in (self.expr, self.stmt):
            if x is not None and hasattr(x, "lineno"):
                return x.lineno
        return 0

    def __repr__(self):
        d = ""
        if self.kind == "branch":
            d = f" {ast.unparse(self.expr)[:40]}={self.polarity}"
        elif self.stmt is not None and self.kind in ("stmt", "test", "for", "with", "return", "raise"):
            try:
                d = " " + ast.unparse(self.stmt).split("\n")[0][:50]
            except Exception:  # noqa: BLE001
                pass
        return f"<{self.id}:{self.kind}{d}>"


CATCH_ALL = {"Exception", "BaseException"}


def _may_raise(st):
    if isinstance(st, (ast.Pass, ast.Break, ast.Continue, ast.Global, ast.Nonlocal)):
        return False
    for n in ast.walk(st):
        if isinstance(n, (ast.Call, ast.Subscript, ast.BinOp, ast.Raise, ast.Assert,
                          ast.Attribute, ast.Compare, ast.Await, ast.Yield,
                          ast.YieldFrom, ast.Starred, ast.Delete, ast.AugAssign,
                          ast.Import, ast.ImportFrom)):
            return True
    return False


class CFG:
    def __init__(self, func):
        if not isinstance(func, (ast.FunctionDef, ast.AsyncFunctionDef, ast.Lambda)):
            raise AnalysisError("CFG needs a function definition")
        self.func = func
        self.nodes = []
        self.entry = self._new("entry")
        self.exit = self._new("exit")       # normal return
        self.raise_exit = self._new("raise_exit")
        self.by_stmt = {}                   # id(ast stmt) -> [Node]
        self.owner = {}                     # id(ast sub-node) -> [Node]
        body = func.body if not isinstance(func, ast.Lambda) else [ast.Return(func.body)]
        out = self._seq(body, [(self.entry, None)], [])
        for n, lab in out:
            self._edge(n, self.exit, lab)
        self._dom = None
        self._pdom = None

    # ------------------------------------------------------------ construction
    def _new(self, kind, stmt=None, expr=None, polarity=None, tag=None):
        n = Node(len(self.nodes), kind, stmt, expr, polarity, tag)
        self.nodes.append(n)
        if stmt is not None and kind != "branch":
            self.by_stmt.setdefault(id(stmt), []).append(n)
        return n

    def _edge(self, a, b, label=None):
        if (b, label) not in a.succ:
            a.succ.append((b, label))
            b.pred.append((a, label))

    def _own(self, node, *exprs):
        for e in exprs:
            if e is None:
                continue
            for sub in _walk_no_defs(e):
                self.owner.setdefault(id(sub), []).append(node)

    def _link(self, preds, node):
        for p, lab in preds:
            self._edge(p, node, lab)

    def _raise_targets(self, node, frames, label="exc"):
        """Connect `node`'s exceptional exit through the frame stack."""
        cur = [(node, label)]
        i = len(frames) - 1
        while i >= 0:
            fr = frames[i]
            if fr["kind"] == "try_except":
                for h in fr["handlers"]:
                    self._link(cur, h)
                if fr["catch_all"]:
                    return
            elif fr["kind"] == "finally":
                cur = self._seq(fr["body"], cur, frames[:i])
                if not cur:
                    return
            i -= 1
        self._link(cur, self.raise_exit)

    def _jump(self, preds, frames, kind):
        """return / break / continue through enclosing finally frames."""
        cur = preds
        i = len(frames) - 1
        while i >= 0:
            fr = frames[i]
            if fr["kind"] == "finally":
                cur = self._seq(fr["body"], cur, frames[:i])
                if not cur:
                    return
            elif fr["kind"] == "loop" and kind in ("break", "continue"):
                if kind == "break":
                    fr["breaks"].extend(cur)
                else:
                    self._link(cur, fr["header"])
                return
            i -= 1
        if kind == "return":
            self._link(cur, self.exit)
        else:
            raise AnalysisError(f"'{kind}' outside loop")

    def _seq(self, stmts, preds, frames):
        for st in stmts:
            if not preds:
                # unreachable code after return/raise: still index it
                preds = []
            preds = self._stmt(st, preds, frames)
        return preds

    def _stmt(self, st, preds, frames):
        if isinstance(st, ast.If):
            t = self._new("test", st, st.test)
            self._own(t, st.test)
            self._link(preds, t)
            self._raise_targets(t, frames)
            bt = self._new("branch", st, st.test, True)
            bf = self._new("branch", st, st.test, False)
            self._edge(t, bt, "T")
            self._edge(t, bf, "F")
            o1 = self._seq(st.body, [(bt, None)], frames)
            o2 = self._seq(st.orelse, [(bf, None)], frames)
            return o1 + o2
        if isinstance(st, ast.While):
            t = self._new("test", st, st.test)
            self._own(t, st.test)
            self._link(preds, t)
            self._raise_targets(t, frames)
            bt = self._new("branch", st, st.test, True)
            bf = self._new("branch", st, st.test, False)
            self._edge(t, bt, "T")
            const_true = isinstance(st.test, ast.Constant) and bool(st.test.value)
            if not const_true:
                self._edge(t, bf, "F")
            fr = {"kind": "loop", "header": t, "breaks": []}
            o = self._seq(st.body, [(bt, None)], frames + [fr])
            self._link(o, t)
            oe = self._seq(st.orelse, [(bf, None)], frames) if not const_true else []
            return oe + fr["breaks"]
        if isinstance(st, (ast.For, ast.AsyncFor)):
            h = self._new("for", st, st.iter)
            self._own(h, st.iter, st.target)
            self._link(preds, h)
            self._raise_targets(h, frames)
            bt = self._new("branch", st, st.iter, "iter")
            bf = self._new("branch", st, st.iter, "done")
            self._edge(h, bt, "iter")
            self._edge(h, bf, "done")
            fr = {"kind": "loop", "header": h, "breaks": []}
            o = self._seq(st.body, [(bt, None)], frames + [fr])
            self._link(o, h)
            oe = self._seq(st.orelse, [(bf, None)], frames)
            return oe + fr["breaks"]
        if isinstance(st, (ast.With, ast.AsyncWith)):
            w = self._new("with", st)
            for it in st.items:
                self._own(w, it.context_expr, it.optional_vars)
            self._link(preds, w)
            self._raise_targets(w, frames)
            return self._seq(st.body, [(w, None)], frames)
        if isinstance(st, ast.Try) or st.__class__.__name__ == "TryStar":
            return self._try(st, preds, frames)
        if isinstance(st, ast.Return):
            n = self._new("return", st)
            self._own(n, st.value)
            self._link(preds, n)
            if st.value is not None and _may_raise(st):
                self._raise_targets(n, frames)
            self._jump([(n, None)], frames, "return")
            return []
        if isinstance(st, ast.Raise):
            n = self._new("raise", st)
            self._own(n, st.exc, st.cause)
            self._link(preds, n)
            self._raise_targets(n, frames, "raise")
            return []
        if isinstance(st, ast.Break):
            n = self._new("stmt", st)
            self._link(preds, n)
            self._jump([(n, None)], frames, "break")
            return []
        if isinstance(st, ast.Continue):
            n = self._new("stmt", st)
            self._link(preds, n)
            self._jump([(n, None)], frames, "continue")
            return []
        if isinstance(st, (ast.FunctionDef, ast.AsyncFunctionDef, ast.ClassDef)):
            n = self._new("def", st)
            self._link(preds, n)
            return [(n, None)]
        if isinstance(st, ast.Assert):
            n = self._new("stmt", st)
            self._own(n, st.test, st.msg)
            self._link(preds, n)
            self._raise_targets(n, frames)
            return [(n, None)]
        if st.__class__.__name__ == "Match":
            raise AnalysisError("match statement not supported by the CFG builder")
        # simple statement
        n = self._new("stmt", st)
        self._own(n, st)
        self._link(preds, n)
        if _may_raise(st):
            self._raise_targets(n, frames)
        return [(n, None)]

    def _try(self, st, preds, frames):
        fin = {"kind": "finally", "body": st.finalbody} if st.finalbody else None
        base = frames + ([fin] if fin else [])
        handlers = []
        catch_all = False
        for h in st.handlers:
            hn = self._new("handler", h)
            handlers.append(hn)
            names = _handler_names(h)
            if names is None or names & CATCH_ALL:
                catch_all = True
        tfr = {"kind": "try_except", "handlers": handlers, "catch_all": catch_all}
        body_frames = base + ([tfr] if handlers else [])
        o = self._seq(st.body, preds, body_frames)
        o = self._seq(st.orelse, o, base)
        for hn, h in zip(handlers, st.handlers):
            o += self._seq(h.body, [(hn, None)], base)
        if fin:
            o = self._seq(st.finalbody, o, frames)
        return o

    # ------------------------------------------------------------------ queries
    def nodes_of(self, stmt):
        return self.by_stmt.get(id(stmt), [])

    def owners(self, sub):
        """CFG nodes whose statement/test contains AST node `sub`."""
        return self.owner.get(id(sub), [])

    def dominators(self):
        if self._dom is None:
            self._dom = _dominators(self.nodes, self.entry, lambda n: [p for p, _ in n.pred])
        return self._dom

    def dominates(self, a, b):
        return a in self.dominators().get(b, ())

    def guards(self, node):
        """[(test_expr, polarity, branch_node)] for every branch node dominating
        `node` (control predicates that hold on every path reaching it)."""
        out = []
        for d in self.dominators().get(node, ()):
            if d.kind == "branch" and d is not node:
                out.append((d.expr, d.polarity, d))
        out.sort(key=lambda x: x[2].id)
        return out

    def reachable(self, src, avoid=()):
        """Nodes reachable from src without entering nodes in `avoid`."""
        avoid = set(avoid)
        seen = set()
        stack = [src]
        while stack:
            n = stack.pop()
            if n in seen or n in avoid:
                continue
            seen.add(n)
            for s, _ in n.succ:
                stack.append(s)
        return seen

    def path_exists(self, src, dst, avoid=(), skip_labels=(), skip_edges=()):
        """Is there a path src ->* dst not passing through `avoid` nodes (src
        itself is allowed even if in avoid) and not using edges with a label in
        `skip_labels`, nor the particular (node, label) out-edges in `skip_edges`
        (branches known to be infeasible for the question asked)?"""
        avoid = set(avoid)
        skip_edges = {(id(a), b) for a, b in skip_edges}
        seen = set()
        stack = [src]
        first = True
        while stack:
            n = stack.pop()
            if n in seen:
                continue
            if n in avoid and not first:
                continue
            first = False
            seen.add(n)
            if n is dst and n is not src:
                return True
            for s, lab in n.succ:
                if lab in skip_labels or (id(n), lab) in skip_edges:
                    continue
                if s is dst:
                    return True
                stack.append(s)
        return False

    def live_nodes(self):
        return self.reachable(self.entry)


def _handler_names(h):
    """Set of exception class names of an except clause, None for bare except."""
    if h.type is None:
        return None
    t = h.type
    elts = t.elts if isinstance(t, ast.Tuple) else [t]
    out = set()
    for e in elts:
        if isinstance(e, ast.Name):
            out.add(e.id)
        elif isinstance(e, ast.Attribute):
            out.add(e.attr)
        else:
            out.add(ast.unparse(e))
    return out


def handler_names(h):
    return _handler_names(h)


def _walk_no_defs(e):
    yield e
    for ch in ast.iter_child_nodes(e):
        if isinstance(ch, (ast.FunctionDef, ast.AsyncFunctionDef, ast.ClassDef)):
            continue
        yield from _walk_no_defs(ch)


def _dominators(nodes, entry, preds):
    # reverse post-order from entry
    order = []
    seen = set()

    def dfs(n):
        stack = [(n, iter([s for s, _ in n.succ]))]
        seen.add(n)
        while stack:
            node, it = stack[-1]
            adv = False
            for s in it:
                if s not in seen:
                    seen.add(s)
                    stack.append((s, iter([x for x, _ in s.succ])))
                    adv = True
                    break
            if not adv:
                order.append(node)
                stack.pop()
    dfs(entry)
    order.reverse()
    live = set(order)
    dom = {n: None for n in order}
    dom[entry] = {entry}
    changed = True
    while changed:
        changed = False
        for n in order:
            if n is entry:
                continue
            ps = [dom[p] for p in preds(n) if p in live and dom.get(p) is not None]
            if not ps:
                continue
            new = set.intersection(*ps) | {n}
            if dom[n] != new:
                dom[n] = new
                changed = True
    return {n: (d or {n}) for n, d in dom.items()}


def decompose_guard(expr, polarity):
    """Atomic facts implied by `expr` evaluating to `polarity`.

    Returns a list of (atom_expr, truth).  `a and b` true => a true, b true;
    `a or b` false => both false; `not a` flips.  Anything else is one atom."""
    if polarity not in (True, False):
        return []
    if isinstance(expr, ast.UnaryOp) and isinstance(expr.op, ast.Not):
        return decompose_guard(expr.operand, not polarity)
    if isinstance(expr, ast.BoolOp):
        if isinstance(expr.op, ast.And) and polarity:
            out = []
            for v in expr.values:
                out += decompose_guard(v, True)
            return out
        if isinstance(expr.op, ast.Or) and not polarity:
            out = []
            for v in expr.values:
                out += decompose_guard(v, False)
            return out
        return [(expr, polarity)]
    return [(expr, polarity)]


def facts_at(cfg, node):
    """All atomic (expr_text, truth) facts holding at `node` by dominance."""
    out = []
    for expr, pol, _ in cfg.guards(node):
        for a, t in decompose_guard(expr, pol):
            out.append((ast.unparse(a), t, a))
    return out
