"""E5 (text level): extraction of Py_BuildValue formats/arguments and method
tables from C sources that cannot be type-checked here (BSD, macOS, Solaris,
AIX and Windows headers are absent).  A small #if evaluator selects the lines
active for a set of platform macros."""

import re


def strip_comments(src):
    out = []
    i, n = 0, len(src)
    while i < n:
        c = src[i]
        if c == '"':
            j = i + 1
            while j < n and src[j] != '"':
                j += 2 if src[j] == "\\" else 1
            out.append(src[i:j + 1])
            i = j + 1
        elif c == "'":
            j = i + 1
            while j < n and src[j] != "'":
                j += 2 if src[j] == "\\" else 1
            out.append(src[i:j + 1])
            i = j + 1
        elif src.startswith("//", i):
            j = src.find("\n", i)
            i = n if j < 0 else j
        elif src.startswith("/*", i):
            j = src.find("*/", i + 2)
            chunk = src[i:(n if j < 0 else j + 2)]
            out.append("\n" * chunk.count("\n"))
            i = n if j < 0 else j + 2
        else:
            out.append(c)
            i += 1
    return "".join(out)


def _eval_cond(expr, defines):
    """Evaluate a preprocessor condition; macros are a dict name->int."""
    e = expr
    e = re.sub(r"defined\s*\(\s*(\w+)\s*\)", lambda m: "1" if m.group(1) in defines else "0", e)
    e = re.sub(r"defined\s+(\w+)", lambda m: "1" if m.group(1) in defines else "0", e)

    def ident(m):
        w = m.group(0)
        if w in ("and", "or", "not"):
            return w
        return str(defines.get(w, 0))
    e = e.replace("&&", " and ").replace("||", " or ")
    e = re.sub(r"!(?!=)", " not ", e)
    e = re.sub(r"\b[A-Za-z_]\w*\b", ident, e)
    e = re.sub(r"(\d+)[uUlL]+\b", r"\1", e)
    try:
        return bool(eval(e, {"__builtins__": {}}, {}))  # noqa: S307 - digits and operators only
    except Exception:  # noqa: BLE001
        return False


def preprocess(src, defines):
    """Keep the lines active under `defines` (dict macro -> int value)."""
    out = []
    stack = []      # (parent_active, taken_already, active_now)
    active = True
    lines = src.split("\n")
    i = 0
    while i < len(lines):
        line = lines[i]
        while line.rstrip().endswith("\\") and i + 1 < len(lines):
            i += 1
            line = line.rstrip()[:-1] + " " + lines[i]
        s = line.strip()
        m = re.match(r"#\s*(ifdef|ifndef|if|elif|else|endif)\b(.*)", s)
        if m:
            kw, rest = m.group(1), m.group(2).strip()
            if kw in ("if", "ifdef", "ifndef"):
                if kw == "ifdef":
                    v = rest.split()[0] in defines
                elif kw == "ifndef":
                    v = rest.split()[0] not in defines
                else:
                    v = _eval_cond(rest, defines)
                stack.append([active, v, active and v])
                active = active and v
            elif kw == "elif":
                par, taken, _ = stack[-1]
                v = (not taken) and _eval_cond(rest, defines)
                stack[-1][1] = taken or v
                stack[-1][2] = par and v
                active = par and v
            elif kw == "else":
                par, taken, _ = stack[-1]
                v = not taken
                stack[-1][1] = True
                stack[-1][2] = par and v
                active = par and v
            else:
                par, _, _ = stack.pop()
                active = par
            out.append("")
        else:
            out.append(line if active else "")
        i += 1
    return "\n".join(out)


def function_body(src, name):
    """Text of the body of C function `name` (first definition), or None."""
    for m in re.finditer(r"\b" + re.escape(name) + r"\s*\(", src):
        # definition: the matching ')' is followed by '{'
        i = m.end() - 1
        depth = 0
        j = i
        while j < len(src):
            if src[j] == "(":
                depth += 1
            elif src[j] == ")":
                depth -= 1
                if depth == 0:
                    break
            j += 1
        k = j + 1
        while k < len(src) and src[k] in " \t\n":
            k += 1
        if k < len(src) and src[k] == "{":
            d = 0
            e = k
            while e < len(src):
                if src[e] == "{":
                    d += 1
                elif src[e] == "}":
                    d -= 1
                    if d == 0:
                        return src[k:e + 1]
                e += 1
    return None


def _split_args(s):
    args, cur, depth = [], [], 0
    i = 0
    while i < len(s):
        c = s[i]
        if c == '"':
            j = i + 1
            while j < len(s) and s[j] != '"':
                j += 2 if s[j] == "\\" else 1
            cur.append(s[i:j + 1])
            i = j + 1
            continue
        if c in "([{":
            depth += 1
        elif c in ")]}":
            depth -= 1
        if c == "," and depth == 0:
            args.append("".join(cur).strip())
            cur = []
        else:
            cur.append(c)
        i += 1
    if "".join(cur).strip():
        args.append("".join(cur).strip())
    return args


def calls(body, fname):
    """[(args list, offset)] of calls to fname in body."""
    out = []
    for m in re.finditer(r"\b" + re.escape(fname) + r"\s*\(", body):
        i = m.end()
        depth = 1
        j = i
        while j < len(body) and depth:
            c = body[j]
            if c == '"':
                j += 1
                while j < len(body) and body[j] != '"':
                    j += 2 if body[j] == "\\" else 1
            elif c == "(":
                depth += 1
            elif c == ")":
                depth -= 1
            j += 1
        out.append((_split_args(body[i:j - 1]), m.start()))
    return out


def format_units(fmt_expr):
    """Units of a Py_BuildValue/PyArg_ParseTuple format expression made of
    string literals and the _Py_PARSE_PID macro.  Returns list of unit codes."""
    units = []
    parts = re.findall(r'"((?:[^"\\]|\\.)*)"|([A-Za-z_]\w*)', fmt_expr)
    for lit, ident in parts:
        if ident:
            units.append("pid" if ident == "_Py_PARSE_PID" else f"<{ident}>")
            continue
        i = 0
        while i < len(lit):
            c = lit[i]
            if c in "()[]{} ,:|$":
                if c in ":;":
                    break
                i += 1
                continue
            if c == ";":
                break
            u = c
            if i + 1 < len(lit) and lit[i + 1] in "#*!&":
                u += lit[i + 1]
                i += 1
            units.append(u)
            i += 1
    return units


def method_table(src):
    """Names exported through a PyMethodDef table: {"name": c_function}."""
    out = {}
    for m in re.finditer(r'\{\s*"(\w+)"\s*,\s*(?:\(PyCFunction\)\s*)?(\w+)\s*,\s*METH_', src):
        out[m.group(1)] = m.group(2)
    return out
