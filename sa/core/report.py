"""Reporting protocol shared by every property checker.

exit 0  every rule instance discharged (or only listed known findings)
exit 1  at least one unlisted violation  -> "VIOLATION property=<id> replay=<path>"
exit 2  the analysis itself is broken     -> "ANALYSIS-ERROR property=<id> ..."
"""

import json
import os
import time

VERIF = os.path.dirname(os.path.dirname(os.path.dirname(os.path.abspath(__file__))))


def EVDIR():
    # the self-test points this at its scratch directory so that validating the
    # checkers never overwrites the real evidence
    return os.environ.get("VERIF_EVIDENCE_DIR") or os.path.join(VERIF, "evidence")


class AnalysisError(Exception):
    """The analysis cannot give a verdict (anchor vanished, unsupported
    construct, instance floor not reached). Never reported as a violation."""


class Finding:
    __slots__ = ("rule", "key", "file", "line", "func", "msg", "detail")

    def __init__(self, rule, key, file, line, func, msg, detail=None):
        self.rule = rule
        self.key = key
        self.file = file
        self.line = line
        self.func = func
        self.msg = msg
        self.detail = detail or {}

    def as_dict(self):
        return {
            "rule": self.rule,
            "key": self.key,
            "file": self.file,
            "line": self.line,
            "function": self.func,
            "message": self.msg,
            "detail": self.detail,
        }


class Ctx:
    """Per-run context handed to a property checker."""

    def __init__(self, prop, repo, tier, seed=0, replay=None):
        self.prop = prop
        self.repo = repo
        self.tier = tier
        self.seed = seed
        self.replay = replay
        self.findings = []
        self.advisories = []
        self.assumptions = []
        self.obligations = 0
        self.discharged = 0
        self.nontrivial = set()
        self.samples = []
        self.rules = {}  # rule id -> dict(text=..., instances=n, floor=n)
        self.stats = {}
        self.t0 = time.time()

    # -- rule bookkeeping ------------------------------------------------
    def rule(self, rid, text, floor=1):
        """Declare a rule; `floor` is the minimum number of instances that
        must be evaluated (confirmed by hand on the pinned tree)."""
        self.rules[rid] = {"text": text, "instances": 0, "floor": floor,
                           "failed": 0}

    def ok(self, rid, key, sample=None, nontrivial=True):
        """One obligation of rule `rid` discharged."""
        self._count(rid, key, sample, nontrivial)
        self.discharged += 1

    def fail(self, rid, key, file, line, func, msg, detail=None, sample=None):
        """One obligation of rule `rid` failed."""
        self._count(rid, key, sample, True)
        self.rules[rid]["failed"] += 1
        self.findings.append(
            Finding(rid, f"{rid}:{key}", file, line, func, msg, detail))

    def _count(self, rid, key, sample, nontrivial):
        if rid not in self.rules:
            raise AnalysisError(f"undeclared rule {rid}")
        self.rules[rid]["instances"] += 1
        self.obligations += 1
        if nontrivial:
            self.nontrivial.add(f"{rid}:{key}")
        if sample is not None and len(self.samples) < 40:
            self.samples.append({"rule": rid, "instance": key,
                                 "obligation": sample})

    def advisory(self, text):
        self.advisories.append(text)
        # an instance the rule could not decide on this tree (it is counted as a
        # trivial obligation, never as a violation): visible in the evidence so
        # that a rule cannot become vacuous unnoticed
        if text.rstrip().endswith("not decided"):
            self.stats["undecided_instances"] = self.stats.get("undecided_instances", 0) + 1

    def assume(self, text):
        if text not in self.assumptions:
            self.assumptions.append(text)

    def require(self, cond, msg):
        if not cond:
            raise AnalysisError(msg)

    def stat(self, name, value):
        self.stats[name] = value

    def bump(self, name, n=1):
        self.stats[name] = self.stats.get(name, 0) + n


def load_known(prop):
    path = os.path.join(VERIF, "known_findings.json")
    if not os.path.exists(path):
        return []
    with open(path) as f:
        data = json.load(f)
    return [e for e in data.get("findings", [])
            if e.get("property") == prop and e.get("status") == "known"]


def finish(ctx, explanation, technique):
    """Check floors, split findings into known/new, write evidence and
    replay files, print the protocol lines, return the exit code."""
    for rid, r in ctx.rules.items():
        # the floor guards against vacuous passes; a rule that already found a
        # violation is not vacuous
        if r["instances"] < r["floor"] and not r["failed"] and not ctx.findings:
            raise AnalysisError(
                f"rule {rid} matched {r['instances']} instance(s), fewer than "
                f"the {r['floor']} confirmed on the pinned tree: the anchor "
                f"moved or vanished ({r['text']})")
    ctx.stats.setdefault("undecided_instances", 0)
    known = load_known(ctx.prop)
    known_keys = {e["key"]: e for e in known}
    new, listed = [], []
    for f in ctx.findings:
        if f.key in known_keys:
            listed.append(f)
        else:
            new.append(f)
    if ctx.replay:
        # replay mode: keep only the instance named in the replay file
        with open(ctx.replay) as fh:
            want = json.load(fh).get("key")
        new = [f for f in new if f.key == want]
        listed = [f for f in listed if f.key == want]

    for f in listed:
        print(f"KNOWN-FINDING: property={ctx.prop} rule={f.rule} "
              f"{f.file}:{f.line} {f.func}: {known_keys[f.key].get('what', f.msg)}")
    for a in ctx.advisories:
        print(f"ADVISORY property={ctx.prop} {a}")

    replay_paths = []
    if new:
        rdir = os.path.join(EVDIR(), "replay")
        os.makedirs(rdir, exist_ok=True)
        for i, f in enumerate(new, 1):
            p = os.path.join(rdir, f"{ctx.prop}-{i}.json")
            with open(p, "w") as fh:
                json.dump(dict(property=ctx.prop, **f.as_dict()), fh, indent=1)
            replay_paths.append(p)

    wall = time.time() - ctx.t0
    evidence = {
        "property_id": ctx.prop,
        "tier": ctx.tier,
        "seed": ctx.seed,
        "level": "other",
        "coverage": {
            "explanation": explanation,
            "technique": technique,
            "evaluations": ctx.obligations,
            "distinct_nontrivial": len(ctx.nontrivial),
            "rule": "one evaluation = one rule instance (call site, path "
                    "obligation, handler, table row or field) found in /repo's "
                    "current source; non-trivial = distinct (rule, construct) "
                    "keys whose obligation has at least one reachable witness "
                    "in the analysed code",
            "obligations": ctx.obligations,
            "discharged": ctx.discharged,
            "rules": {k: {"text": v["text"], "instances": v["instances"],
                          "failed": v["failed"], "floor": v["floor"]}
                      for k, v in ctx.rules.items()},
            "samples": ctx.samples[:40] or [{"note": "no obligations"}],
            "exhaustive": True,
            "known_findings_matched": [f.key for f in listed],
            "advisories": ctx.advisories,
            **ctx.stats,
        },
        "assumptions": ctx.assumptions,
        "wall_s": round(wall, 3),
        "violations": len(new),
    }
    if not ctx.replay:
        epath = os.path.join(EVDIR(), f"{ctx.prop}.json")
        os.makedirs(os.path.dirname(epath), exist_ok=True)
        with open(epath, "w") as fh:
            json.dump(evidence, fh, indent=1, default=str)

    if new:
        print(f"VIOLATION property={ctx.prop} replay={replay_paths[0]}")
        for f, p in zip(new, replay_paths):
            print(f"  {f.file}:{f.line} {f.func} rule={f.rule} key={f.key}")
            print(f"    {f.msg}")
            print(f"    replay={p}")
        return 1
    nrules = len(ctx.rules)
    print(f"OK property={ctx.prop} tier={ctx.tier} rules={nrules} "
          f"obligations={ctx.obligations} discharged={ctx.discharged} "
          f"known={len(listed)} wall={wall:.2f}s")
    return 0
