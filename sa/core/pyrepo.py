"""E1: loader, function index and callee resolver for psutil's Python layer.

Nothing is imported or executed: every fact comes from `ast` over the files of
the working tree.  Resolution is specific to the idioms psutil uses.
"""

import ast
import os

from .report import AnalysisError

PLATFORM_MODULES = {
    "linux": "_pslinux",
    "windows": "_pswindows",
    "macos": "_psosx",
    "freebsd": "_psbsd",
    "openbsd": "_psbsd",
    "netbsd": "_psbsd",
    "sunos": "_pssunos",
    "aix": "_psaix",
}

# value of each platform flag per configuration
FLAGS = ("LINUX", "WINDOWS", "MACOS", "OSX", "FREEBSD", "OPENBSD", "NETBSD",
         "BSD", "SUNOS", "AIX", "POSIX")


def platform_flags(plat):
    f = dict.fromkeys(FLAGS, False)
    f["POSIX"] = plat != "windows"
    key = {"linux": "LINUX", "windows": "WINDOWS", "macos": "MACOS",
           "freebsd": "FREEBSD", "openbsd": "OPENBSD", "netbsd": "NETBSD",
           "sunos": "SUNOS", "aix": "AIX"}[plat]
    f[key] = True
    if plat == "macos":
        f["OSX"] = True
    if plat in ("freebsd", "openbsd", "netbsd"):
        f["BSD"] = True
    return f


class FuncInfo:
    """One function definition (module function, method, nested function)."""

    def __init__(self, module, qual, node, cls=None, parent=None, conds=()):
        self.module = module          # short module name, e.g. "_pslinux"
        self.qual = qual              # e.g. "Process.cpu_times" / "wait_pid.sleep"
        self.node = node
        self.cls = cls                # enclosing class name or None
        self.parent = parent          # enclosing FuncInfo or None
        self.conds = tuple(conds)     # (test_expr, polarity) of enclosing `if`s
        self.decorators = [dec_name(d) for d in node.decorator_list]

    @property
    def name(self):
        return self.node.name

    @property
    def fq(self):
        return f"{self.module}:{self.qual}"

    @property
    def file(self):
        return f"psutil/{self.module}.py" if self.module != "psutil" \
            else "psutil/__init__.py"

    def __repr__(self):
        return f"<Func {self.fq}>"


def dec_name(d):
    if isinstance(d, ast.Call):
        return dec_name(d.func)
    return dotted(d) or "?"


def dotted(e):
    """'a.b.c' for Name/Attribute chains, else None."""
    if isinstance(e, ast.Name):
        return e.id
    if isinstance(e, ast.Attribute):
        b = dotted(e.value)
        return f"{b}.{e.attr}" if b else None
    return None


class ModuleInfo:
    def __init__(self, name, path, rel):
        self.name = name
        self.path = path
        self.rel = rel
        with open(path, encoding="utf-8") as f:
            self.src = f.read()
        self.tree = ast.parse(self.src, filename=path)
        if not os.environ.get("VERIF_NO_NORMALISE"):
            from .normalise import normalise
            known = None
            if not os.environ.get("VERIF_NO_CANON"):
                from .canon_names import load_ref
                fl = load_ref().get("__functions__", {}).get(name)
                known = frozenset(fl) if fl is not None else None
            normalise(self.tree, known)
        self.lines = self.src.splitlines()
        self.funcs = {}       # qual -> [FuncInfo,...] (several under if/else)
        self.classes = {}     # name -> ClassDef
        self.imports = {}     # local name -> ("module", modname) | ("name", modname, attr)
        self.assigns = {}     # module-level name -> [value expr,...]
        self._index()
        self.renamed_locals = 0
        if not os.environ.get("VERIF_NO_CANON"):
            from .canon_names import canonise_module
            self.renamed_locals = canonise_module(self)

    def _index(self):
        def walk_body(body, cls, parent, prefix, conds):
            for st in body:
                if isinstance(st, (ast.FunctionDef, ast.AsyncFunctionDef)):
                    qual = prefix + st.name
                    fi = FuncInfo(self.name, qual, st, cls, parent, conds)
                    self.funcs.setdefault(qual, []).append(fi)
                    walk_body(st.body, cls, fi, qual + ".", ())
                elif isinstance(st, ast.ClassDef):
                    if parent is None and cls is None:
                        self.classes[st.name] = st
                    walk_body(st.body, st.name if cls is None else cls, parent,
                              prefix + st.name + ".", conds)
                elif isinstance(st, ast.If):
                    walk_body(st.body, cls, parent, prefix, conds + ((st.test, True),))
                    walk_body(st.orelse, cls, parent, prefix, conds + ((st.test, False),))
                elif isinstance(st, ast.Try):
                    walk_body(st.body, cls, parent, prefix, conds)
                    for h in st.handlers:
                        walk_body(h.body, cls, parent, prefix, conds)
                    walk_body(st.orelse, cls, parent, prefix, conds)
                    walk_body(st.finalbody, cls, parent, prefix, conds)
                elif isinstance(st, (ast.For, ast.While, ast.With)):
                    walk_body(st.body, cls, parent, prefix, conds)
                    walk_body(getattr(st, "orelse", []), cls, parent, prefix, conds)
                elif parent is None and cls is None:
                    self._toplevel(st)

        walk_body(self.tree.body, None, None, "", ())
        # imports and assignments also under if/try at module level
        for st in ast.walk(self.tree):
            if isinstance(st, (ast.Import, ast.ImportFrom)):
                self._import(st)

    def _toplevel(self, st):
        if isinstance(st, ast.Assign):
            for t in st.targets:
                if isinstance(t, ast.Name):
                    self.assigns.setdefault(t.id, []).append(st.value)
        elif isinstance(st, ast.AnnAssign) and isinstance(st.target, ast.Name) and st.value:
            self.assigns.setdefault(st.target.id, []).append(st.value)

    def _import(self, st):
        if isinstance(st, ast.Import):
            for a in st.names:
                self.imports[a.asname or a.name.split(".")[0]] = ("module", a.name)
        else:
            mod = st.module or ""
            for a in st.names:
                local = a.asname or a.name
                if st.level and not mod:
                    # from . import _common
                    self.imports[local] = ("module", "psutil." + a.name)
                elif st.level:
                    self.imports[local] = ("name", "psutil." + mod, a.name)
                else:
                    self.imports[local] = ("name", mod, a.name)

    def segment(self, node):
        return ast.get_source_segment(self.src, node) or ""


def norm_stmt(node):
    """Line-independent normalised text of a statement/expression."""
    try:
        return ast.unparse(node)
    except Exception:  # noqa: BLE001
        return ast.dump(node)


class Repo:
    """All Python modules of the package, indexed."""

    NAMES = ["__init__", "_common", "_psposix", "_pslinux", "_psbsd", "_psosx",
             "_pssunos", "_psaix", "_pswindows"]

    def __init__(self, root):
        self.root = root
        self.modules = {}
        for n in self.NAMES:
            p = os.path.join(root, "psutil", n + ".py")
            if not os.path.exists(p):
                raise AnalysisError(f"source file missing: psutil/{n}.py")
            short = "psutil" if n == "__init__" else n
            try:
                self.modules[short] = ModuleInfo(short, p, f"psutil/{n}.py")
            except SyntaxError as e:
                raise AnalysisError(f"psutil/{n}.py does not parse: {e}")
        self.nfuncs = sum(len(v) for m in self.modules.values()
                          for v in m.funcs.values())

    def mod(self, name):
        return self.modules[name]

    # -- function lookup -----------------------------------------------------
    def funcs(self, module, qual):
        return self.modules[module].funcs.get(qual, [])

    def func(self, module, qual, required=True):
        fs = self.funcs(module, qual)
        if not fs and "." in qual:
            # a closure `outer.inner` that was renamed, or lifted to a method / to
            # module level: the ONE function that is new with respect to the reference
            # tree and is called from `outer` stands for it
            outer = qual.rsplit(".", 1)[0]
            cands = self.new_helpers_called_from(module, outer)
            if len(cands) == 1:
                return cands[0]
        if not fs:
            if required:
                raise AnalysisError(f"anchor vanished: {module}:{qual} not found")
            return None
        return fs[0]

    def new_helpers_called_from(self, module, qual):
        """Functions of `module` that do not exist on the reference tree and are
        called (by name, or as self.<name>) from the function `qual`."""
        from .canon_names import load_ref
        known = set((load_ref().get("__functions__") or {}).get(module, []))
        out = []
        for fo in self.funcs(module, qual):
            called = set()
            for c in ast.walk(fo.node):
                if isinstance(c, ast.Call):
                    if isinstance(c.func, ast.Name):
                        called.add(c.func.id)
                    elif isinstance(c.func, ast.Attribute) and dotted(c.func.value) in ("self", "cls"):
                        called.add(c.func.attr)
            for g in self.all_funcs(module):
                if g.qual in known or g is fo or g in out:
                    continue
                if g.name in called and (g.parent is None or g.parent is fo):
                    out.append(g)
        return out

    def all_funcs(self, module=None):
        for mn, m in self.modules.items():
            if module and mn != module:
                continue
            for fs in m.funcs.values():
                yield from fs

    def methods(self, module, cls):
        """name -> [FuncInfo] for direct methods of a class (all if-branches)."""
        out = {}
        for q, fs in self.modules[module].funcs.items():
            parts = q.split(".")
            if len(parts) == 2 and parts[0] == cls:
                out[parts[1]] = fs
        return out

    # -- callee resolution ----------------------------------------------------
    def resolve_call(self, call, fi, plat="linux"):
        """Resolve an ast.Call inside function `fi` to a list of targets.

        A target is one of
          ("func", FuncInfo)       repo function (possibly several variants)
          ("native", "cext.name")  C extension function
          ("ext", "os.kill")       stdlib / builtin, by dotted name
          ("unknown", text)
        """
        return self.resolve_expr(call.func, fi, plat)

    def resolve_expr(self, f, fi, plat="linux", _depth=0):
        if _depth > 6:
            return [("unknown", norm_stmt(f))]
        mod = self.modules[fi.module]
        name = dotted(f)
        # --- self.X(...) / self._proc.X(...) --------------------------------
        if isinstance(f, ast.Attribute):
            base = f.value
            bname = dotted(base)
            if bname == "self" and fi.cls:
                t = self._method(fi.module, fi.cls, f.attr)
                if t:
                    return t
                return [("unknown", name)]
            if bname in ("self._proc",) and fi.module == "psutil":
                pm = PLATFORM_MODULES[plat]
                t = self._method(pm, "Process", f.attr)
                return t or [("unknown", name)]
            if bname in ("proc", "parent", "child", "p") and fi.module == "psutil":
                t = self._method("psutil", "Process", f.attr)
                if t:
                    return t
            if bname == "super()" or (isinstance(base, ast.Call)
                                      and dotted(base.func) == "super"):
                if fi.cls:
                    for b in self._bases(fi.module, fi.cls):
                        t = self._method(b[0], b[1], f.attr)
                        if t:
                            return t
                return [("unknown", name or "super().?")]
            if bname:
                # module attribute: _psplatform.f, _common.f, cext.f, os.kill
                head = bname.split(".")[0]
                tgt = self._module_of(mod, head, plat)
                if tgt is not None and "." not in bname:
                    kind, mname = tgt
                    if kind == "repo":
                        return self._module_attr(mname, f.attr, plat, _depth)
                    if kind == "native":
                        return [("native", f"{mname}.{f.attr}")]
                    return [("ext", f"{mname}.{f.attr}")]
                if tgt is not None:
                    kind, mname = tgt
                    rest = bname.split(".", 1)[1]
                    if kind == "repo":
                        # e.g. _psplatform.Process.x / NetConnections.decode_address
                        return self._module_attr(mname, rest + "." + f.attr, plat, _depth)
                    if kind == "native":
                        return [("native", f"{mname}.{rest}.{f.attr}")]
                    return [("ext", f"{mname}.{rest}.{f.attr}")]
                # ClassName.method inside same module
                if head in mod.classes and "." not in bname:
                    t = self._method(fi.module, head, f.attr)
                    if t:
                        return t
                # module-level instance:  _net_connections = NetConnections()
                if "." not in bname and head in mod.assigns:
                    for v in mod.assigns[head]:
                        if isinstance(v, ast.Call) and isinstance(v.func, ast.Name) \
                                and v.func.id in mod.classes:
                            t = self._method(fi.module, v.func.id, f.attr)
                            if t:
                                return t
            return [("unknown", name or norm_stmt(f))]
        # --- plain name ------------------------------------------------------
        if isinstance(f, ast.Name):
            n = f.id
            # default-argument alias / local alias inside enclosing functions
            cur = fi
            while cur is not None:
                a = cur.node.args
                params = a.posonlyargs + a.args + a.kwonlyargs
                defaults = ([None] * (len(a.posonlyargs + a.args) - len(a.defaults))
                            + list(a.defaults) + list(a.kw_defaults))
                for p, d in zip(params, defaults):
                    if p.arg == n:
                        if d is not None and isinstance(d, (ast.Name, ast.Attribute)):
                            return self.resolve_expr(d, self._outer(cur), plat, _depth + 1)
                        return [("param", n)]
                # nested function defined in cur
                nested = mod.funcs.get(cur.qual + "." + n)
                if nested:
                    return [("func", x) for x in nested]
                # simple local alias:  pjoin = os.path.join
                for st in ast.walk(cur.node):
                    if isinstance(st, ast.Assign) and len(st.targets) == 1 \
                            and isinstance(st.targets[0], ast.Name) \
                            and st.targets[0].id == n \
                            and isinstance(st.value, (ast.Attribute,)):
                        return self.resolve_expr(st.value, cur, plat, _depth + 1)
                cur = cur.parent
            return self._module_attr(fi.module, n, plat, _depth)
        return [("unknown", norm_stmt(f))]

    def _outer(self, fi):
        """Scope in which fi's default arguments are evaluated."""
        if fi.parent is not None:
            return fi.parent
        return FuncInfo(fi.module, "<module>", _EMPTY_FUNC, None, None)

    def _module_of(self, mod, head, plat):
        """What a module-level name `head` denotes as a module."""
        if head == "_psplatform" and mod.name == "psutil":
            return ("repo", PLATFORM_MODULES[plat])
        imp = mod.imports.get(head)
        if imp and imp[0] == "module":
            m = imp[1]
            if m.startswith("psutil."):
                short = m.split(".", 1)[1]
                if short in self.modules:
                    return ("repo", short)
                return ("native", head)
            return ("ext", m)
        if imp and imp[0] == "name" and imp[1] == "psutil" and imp[2].startswith("_psutil"):
            return ("native", head)
        if imp and imp[0] == "name" and imp[1].startswith("psutil.") is False and imp[1] == "":
            return None
        return None

    def _module_attr(self, mname, attr, plat, _depth=0):
        """Resolve `attr` looked up in repo module mname."""
        m = self.modules[mname]
        if attr in m.funcs:
            return [("func", x) for x in m.funcs[attr]]
        head = attr.split(".")[0]
        if head in m.classes and "." in attr:
            t = self._method(mname, head, attr.split(".", 1)[1])
            if t:
                return t
        if attr in m.classes:
            init = self._method(mname, attr, "__init__")
            return init or [("class", f"{mname}:{attr}")]
        imp = m.imports.get(attr)
        if imp:
            if imp[0] == "name":
                src = imp[1]
                if src.startswith("psutil."):
                    short = src.split(".", 1)[1]
                    if short in self.modules:
                        return self._module_attr(short, imp[2], plat, _depth + 1)
                    return [("native", f"{short}.{imp[2]}")]
                return [("ext", f"{src}.{imp[2]}")]
            return [("ext", imp[1])]
        if attr in m.assigns and _depth < 6:
            out = []
            fake = FuncInfo(mname, "<module>", _EMPTY_FUNC, None, None)
            for v in m.assigns[attr]:
                if isinstance(v, (ast.Name, ast.Attribute)):
                    out += self.resolve_expr(v, fake, plat, _depth + 1)
                elif isinstance(v, ast.Call):
                    d = dotted(v.func)
                    if d in ("functools.partial",) and v.args:
                        out += self.resolve_expr(v.args[0], fake, plat, _depth + 1)
                    elif isinstance(v.func, ast.Name) and v.func.id in m.classes:
                        out.append(("instance", f"{mname}:{v.func.id}"))
                    else:
                        out.append(("unknown", attr))
                elif isinstance(v, ast.Lambda):
                    out.append(("lambda", attr))
                else:
                    out.append(("unknown", attr))
            if out:
                return out
        import builtins
        if hasattr(builtins, attr):
            return [("ext", f"builtins.{attr}")]
        return [("unknown", attr)]

    def _bases(self, mname, cls):
        c = self.modules[mname].classes.get(cls)
        out = []
        if c is None:
            return out
        for b in c.bases:
            n = dotted(b)
            if n and n in self.modules[mname].classes:
                out.append((mname, n))
        return out

    def _method(self, mname, cls, attr):
        if "." in attr:
            return None
        fs = self.modules[mname].funcs.get(f"{cls}.{attr}")
        if fs:
            return [("func", x) for x in fs]
        # class-level alias:  memory_full_info = memory_info ; __repr__ = __str__
        c = self.modules[mname].classes.get(cls)
        if c is not None:
            for st in ast.walk(c):
                if isinstance(st, ast.Assign) and len(st.targets) == 1 \
                        and isinstance(st.targets[0], ast.Name) \
                        and st.targets[0].id == attr and isinstance(st.value, ast.Name):
                    t = self.modules[mname].funcs.get(f"{cls}.{st.value.id}")
                    if t:
                        return [("func", x) for x in t]
            for b in self._bases(mname, cls):
                t = self._method(b[0], b[1], attr)
                if t:
                    return t
        return None


_EMPTY_FUNC = ast.parse("def _module_(): pass").body[0]


def calls_in(node):
    """All ast.Call nodes inside `node` (its own body if it is a def), not
    descending into nested defs."""
    out = []

    def rec(n):
        for ch in ast.iter_child_nodes(n):
            if isinstance(ch, (ast.FunctionDef, ast.AsyncFunctionDef, ast.Lambda,
                               ast.ClassDef)):
                continue
            if isinstance(ch, ast.Call):
                out.append(ch)
            rec(ch)
    if isinstance(node, (ast.FunctionDef, ast.AsyncFunctionDef)):
        for st in node.body:
            if isinstance(st, (ast.FunctionDef, ast.AsyncFunctionDef, ast.ClassDef)):
                continue
            if isinstance(st, ast.Call):
                out.append(st)
            rec(st)
        return out
    if isinstance(node, ast.Call):
        out.append(node)
    rec(node)
    return out


def eval_cond(test, flags):
    """Three-valued evaluation of a module/class-level `if` test under platform
    flags. Returns True/False/None (unknown)."""
    if isinstance(test, ast.Name):
        if test.id in flags:
            return flags[test.id]
        return None
    if isinstance(test, ast.Constant):
        return bool(test.value)
    if isinstance(test, ast.UnaryOp) and isinstance(test.op, ast.Not):
        v = eval_cond(test.operand, flags)
        return None if v is None else (not v)
    if isinstance(test, ast.BoolOp):
        vals = [eval_cond(v, flags) for v in test.values]
        if isinstance(test.op, ast.And):
            if any(v is False for v in vals):
                return False
            if all(v is True for v in vals):
                return True
            return None
        if any(v is True for v in vals):
            return True
        if all(v is False for v in vals):
            return False
        return None
    return None
