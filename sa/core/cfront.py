"""E5 (type-resolved): clang JSON AST of the Linux translation units.

`clang -fsyntax-only -Xclang -ast-dump=json` is run with the build's own macros
(taken from setup.py's Linux branch) on every TU of the Linux extensions; the
dump is pruned to the function definitions located in psutil's own files and
cached under /verif/.cache keyed by the SHA-256 of the *preprocessed* TU, so
any edit of a .c/.h invalidates it.  Nothing is compiled to code or run.
"""

import concurrent.futures as cf
import glob
import hashlib
import json
import os
import subprocess
import sysconfig

from .report import VERIF, AnalysisError

CACHE = os.path.join(VERIF, ".cache")


def linux_units(root):
    ps = os.path.join(root, "psutil")
    units = [os.path.join(ps, "_psutil_common.c"), os.path.join(ps, "_psutil_posix.c"),
             os.path.join(ps, "_psutil_linux.c")]
    units += sorted(glob.glob(os.path.join(ps, "arch", "linux", "*.c")))
    for u in units:
        if not os.path.exists(u):
            raise AnalysisError(f"C source missing: {u}")
    return units


def flags(root):
    inc = sysconfig.get_paths()["include"]
    if not os.path.exists(os.path.join(inc, "Python.h")):
        raise AnalysisError(f"Python.h not found under {inc}")
    ver = "700"
    try:
        import re
        s = open(os.path.join(root, "psutil", "__init__.py")).read()
        m = re.search(r'__version__ = "([\d.]+)"', s)
        if m:
            ver = m.group(1).replace(".", "")
    except OSError:
        pass
    return ["-I" + inc, "-I" + os.path.join(root, "psutil"), "-DPSUTIL_POSIX=1",
            "-DPSUTIL_LINUX=1", f"-DPSUTIL_VERSION={ver}", "-DPSUTIL_SIZEOF_PID_T=4",
            "-DPy_LIMITED_API=0x03060000", "-w"]


def _run(cmd):
    p = subprocess.run(cmd, capture_output=True)
    return p.returncode, p.stdout, p.stderr


def load_tu(root, path):
    """Pruned AST: {"file": rel, "functions": [FunctionDecl nodes], "records": {...}}"""
    fl = flags(root)
    rc, pre, err = _run(["clang", "-E"] + fl + [path])
    if rc != 0:
        raise AnalysisError(f"clang -E failed on {path}: {err.decode()[:300]}")
    key = hashlib.sha256(pre + b"|v3").hexdigest()
    os.makedirs(CACHE, exist_ok=True)
    cp = os.path.join(CACHE, key + ".json")
    if os.path.exists(cp):
        try:
            with open(cp) as f:
                return json.load(f)
        except ValueError:
            pass
    rc, out, err = _run(["clang", "-fsyntax-only", "-Xclang", "-ast-dump=json"] + fl + [path])
    if rc != 0:
        raise AnalysisError(f"clang failed on {path} (does not compile?): "
                            f"{err.decode()[:400]}")
    d = json.loads(out)
    rel = os.path.relpath(path, root)
    psdir = os.path.join(root, "psutil")
    funcs = []
    cur_file = None
    for n in d.get("inner", []):
        loc = n.get("loc", {}) or {}
        f = loc.get("file") or (loc.get("spellingLoc", {}) or {}).get("file") \
            or (loc.get("expansionLoc", {}) or {}).get("file")
        if f:
            cur_file = f
        if n.get("kind") == "FunctionDecl" and cur_file and \
                os.path.abspath(cur_file).startswith(psdir) and \
                any(c.get("kind") == "CompoundStmt" for c in n.get("inner", [])):
            n["_file"] = os.path.relpath(os.path.abspath(cur_file), root)
            funcs.append(n)
    res = {"file": rel, "functions": funcs}
    if os.environ.get("VERIF_SELFTEST"):
        return res              # scratch variants never populate the cache
    tmp = cp + f".{os.getpid()}.tmp"
    with open(tmp, "w") as f:
        json.dump(res, f)
    os.replace(tmp, cp)
    try:                        # bounded: keep the 48 most recent dumps
        ents = sorted((os.path.join(CACHE, x) for x in os.listdir(CACHE) if x.endswith(".json")),
                      key=os.path.getmtime)
        for old in ents[:-48]:
            os.unlink(old)
    except OSError:
        pass
    return res


def load_all(root):
    units = linux_units(root)
    with cf.ThreadPoolExecutor(8) as ex:
        return list(ex.map(lambda u: load_tu(root, u), units))


# ----------------------------------------------------------------- AST helpers
def walk(n):
    yield n
    for c in n.get("inner", []) or []:
        if isinstance(c, dict):
            yield from walk(c)


def kids(n):
    return [c for c in n.get("inner", []) or [] if isinstance(c, dict) and c.get("kind")]


def strip(e):
    """Skip implicit casts / parens."""
    while e.get("kind") in ("ImplicitCastExpr", "ParenExpr", "ConstantExpr") and kids(e):
        e = kids(e)[0]
    return e


def strip_all(e):
    while e.get("kind") in ("ImplicitCastExpr", "ParenExpr", "CStyleCastExpr",
                            "ConstantExpr") and kids(e):
        e = kids(e)[0]
    return e


def callee(call):
    ks = kids(call)
    if not ks:
        return None
    f = strip(ks[0])
    if f.get("kind") == "DeclRefExpr":
        return (f.get("referencedDecl") or {}).get("name")
    return None


def call_args(call):
    return kids(call)[1:]


def qtype(e):
    t = e.get("type") or {}
    return t.get("desugaredQualType") or t.get("qualType") or ""


def line_of(n, default=0):
    for part in ("loc", "range"):
        x = n.get(part) or {}
        if part == "range":
            x = x.get("begin") or {}
        for k in ("line",):
            if k in x:
                return x[k]
        for sub in ("expansionLoc", "spellingLoc"):
            if sub in x and "line" in x[sub]:
                return x[sub]["line"]
    return default


def assign_lines(fn):
    """Fill missing line numbers (clang omits `line` when unchanged)."""
    cur = [line_of(fn, 0)]
    order = [0]

    def rec(n):
        order[0] += 1
        n["_ord"] = order[0]
        loc = n.get("range", {}).get("begin", {}) if n.get("range") else {}
        ln = loc.get("line") or (loc.get("expansionLoc") or {}).get("line") \
            or (loc.get("spellingLoc") or {}).get("line")
        if ln:
            cur[0] = ln
        n["_line"] = cur[0]
        for c in n.get("inner", []) or []:
            if isinstance(c, dict):
                rec(c)
    rec(fn)


def string_value(e):
    e = strip_all(e)
    if e.get("kind") == "StringLiteral":
        v = e.get("value", "")
        try:
            return json.loads(v) if v.startswith('"') else v
        except ValueError:
            return v.strip('"')
    return None


def int_value(e):
    e = strip_all(e)
    if e.get("kind") == "IntegerLiteral":
        try:
            return int(e.get("value"))
        except (TypeError, ValueError):
            return None
    if e.get("kind") == "UnaryOperator" and e.get("opcode") == "-":
        v = int_value(kids(e)[0])
        return -v if v is not None else None
    if e.get("kind") == "BinaryOperator":
        a, b = int_value(kids(e)[0]), int_value(kids(e)[1])
        if a is None or b is None:
            return None
        op = e.get("opcode")
        try:
            return {"+": a + b, "-": a - b, "*": a * b, "<<": a << b, ">>": a >> b,
                    "|": a | b, "&": a & b, "/": a // b if b else None}.get(op)
        except (ValueError, OverflowError):
            return None
    return None
