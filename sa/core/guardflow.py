"""Must-pass-through analysis over the call graph.

unguarded(fi): the sink call sites reachable from the entry of `fi` along paths
that never execute a *guard* call, together with the branch facts (on names of
`fi`) that hold on every such path.  A sink inherited from a callee is dropped
when the facts required to reach it inside the callee (mapped through the
arguments of the call) contradict the facts of the caller's unguarded paths -
this is what makes `if limits is not None: guard()` + a callee that only writes
when `limits is not None` come out guarded.
"""

import ast

from .analysis import assigned_names, contradicts, map_args, norm_fact
from .cfg import _dominators, decompose_guard
from .pyrepo import calls_in, dotted, norm_stmt


class SinkHit:
    __slots__ = ("desc", "file", "line", "func", "chain", "facts", "call")

    def __init__(self, desc, file, line, func, chain, facts, call):
        self.desc = desc
        self.file = file
        self.line = line
        self.func = func
        self.chain = chain      # list of "mod:qual" from entry to sink
        self.facts = facts      # canonical facts on the *current* function's names
        self.call = call


class GuardFlow:
    def __init__(self, analysis, plat, is_guard, sink_of, max_depth=8):
        """is_guard(call, targets, fi) -> bool
           sink_of(call, targets, fi) -> description string or None"""
        self.A = analysis
        self.plat = plat
        self.is_guard = is_guard
        self.sink_of = sink_of
        self.max_depth = max_depth
        self.memo = {}
        self.stack = []
        self.discharged_by_predicate = []
        self.guard_sites = set()

    def node_calls(self, fi, node):
        """Calls evaluated by a CFG node (own expressions only)."""
        if node.kind in ("test", "for"):
            exprs = [node.expr]
        elif node.kind == "with":
            exprs = [i.context_expr for i in node.stmt.items]
        elif node.kind in ("stmt", "return", "raise"):
            exprs = [node.stmt]
        else:
            return []
        out = []
        for e in exprs:
            if e is not None:
                out += calls_in(e)
        return out

    def unguarded(self, fi):
        key = id(fi.node)
        if key in self.memo:
            return self.memo[key]
        if key in self.stack or len(self.stack) >= self.max_depth:
            return []
        self.stack.append(key)
        try:
            res = self._compute(fi)
        finally:
            self.stack.pop()
        self.memo[key] = res
        return res

    def _compute(self, fi):
        A, plat = self.A, self.plat
        cfg = A.cfg(fi)
        cg = {id(c): t for c, t in A.calls(fi, plat)}
        dead = A.dead_nodes(fi, plat)
        guard_nodes = set()
        for n in cfg.nodes:
            for c in self.node_calls(fi, n):
                if id(c) in cg and self.is_guard(c, cg[id(c)], fi):
                    guard_nodes.add(n)
                    self.guard_sites.add((fi.fq, n.line))
        dead_nodes = {n for n in cfg.nodes
                      if n.kind != "branch" and n.stmt is not None and id(n.stmt) in dead}
        # platform-dead branch nodes: branch whose polarity contradicts the flag
        from .pyrepo import eval_cond, platform_flags
        flags = platform_flags(plat)
        for n in cfg.nodes:
            if n.kind == "branch" and n.polarity in (True, False):
                v = eval_cond(n.expr, flags)
                if v is not None and v != n.polarity:
                    dead_nodes.add(n)
        avoid = guard_nodes | dead_nodes
        # A guard call that raises leaves through an exception edge: passing
        # *through* the guard node normally means the guard was executed.
        live = cfg.reachable(cfg.entry, avoid=avoid)
        # dominators in the reduced graph -> facts on all unguarded paths
        red_nodes = [n for n in cfg.nodes if n in live]
        dom = _dominators(red_nodes, cfg.entry,
                          lambda n: [p for p, _ in n.pred if p in live])
        out = []
        reassigned = set(assigned_names(fi.node))
        for n in red_nodes:
            calls = self.node_calls(fi, n)
            if not calls:
                continue
            nfacts = []
            for d in dom.get(n, ()):
                if d.kind == "branch" and d.polarity in (True, False):
                    for a, t in decompose_guard(d.expr, d.polarity):
                        nf = norm_fact(a, t)
                        # a fact about a name that the function re-binds is
                        # not stable between the test and the call: drop it
                        if nf[0] in ("isnone", "truthy", "cmp") \
                                and nf[1].split(".")[0] in reassigned:
                            continue
                        nfacts.append(nf)
            for c in calls:
                if id(c) in dead or id(c) not in cg:
                    continue
                targets = cg[id(c)]
                desc = self.sink_of(c, targets, fi)
                if desc:
                    out.append(SinkHit(desc, fi.file, c.lineno, fi.fq,
                                       [fi.fq], list(nfacts), c))
                    continue
                for t in targets:
                    if t[0] != "func":
                        continue
                    callee = t[1]
                    if callee.node is fi.node:
                        continue
                    bound = isinstance(c.func, ast.Attribute) and callee.cls is not None
                    amap = map_args(c, callee.node, bound)
                    for hit in self.unguarded(callee):
                        mapped, clash = self._map_facts(hit.facts, amap, nfacts)
                        if clash:
                            self.discharged_by_predicate.append(
                                (fi.fq, c.lineno, hit.desc, clash))
                            continue
                        out.append(SinkHit(hit.desc, hit.file, hit.line, hit.func,
                                           [fi.fq] + hit.chain,
                                           list(nfacts) + mapped, hit.call))
        return out

    def _map_facts(self, callee_facts, amap, caller_facts):
        """Translate facts on callee parameter names into caller names; report a
        contradiction with the caller's facts if one exists."""
        mapped = []
        for f in callee_facts:
            if f[0] not in ("isnone", "truthy", "cmp"):
                continue
            subj = f[1]
            if subj not in amap:
                continue
            arg = amap[subj]
            if arg is None:
                continue
            if isinstance(arg, ast.Constant):
                # evaluate the fact on the constant
                v = arg.value
                if f[0] == "isnone":
                    actual = v is None
                    if actual != f[2]:
                        return mapped, (f, f"argument is the constant {v!r}")
                elif f[0] == "truthy":
                    if bool(v) != f[2]:
                        return mapped, (f, f"argument is the constant {v!r}")
                continue
            an = dotted(arg)
            if not an:
                continue
            g = (f[0], an) + tuple(f[2:])
            for cf in caller_facts:
                if contradicts(g, cf):
                    return mapped, (g, cf)
            mapped.append(g)
        return mapped, None
