"""E3g: transitive global read / call effects with one level of context for
constant arguments (a callee branch pruned by `flag=True` at the call site
contributes nothing)."""

import ast

from .analysis import map_args
from .pyrepo import calls_in, dotted, norm_stmt


def written_globals(repo):
    """{(module, name): [FuncInfo...]} for module globals assigned inside a
    function through a `global` declaration (i.e. mutable after import)."""
    out = {}
    for fi in repo.all_funcs():
        gl = set()
        for st in ast.walk(fi.node):
            if isinstance(st, ast.Global):
                gl |= set(st.names)
        if not gl:
            continue
        for st in ast.walk(fi.node):
            tgts = []
            if isinstance(st, ast.Assign):
                tgts = st.targets
            elif isinstance(st, (ast.AugAssign, ast.AnnAssign)):
                tgts = [st.target]
            for t in tgts:
                for n in ast.walk(t):
                    if isinstance(n, ast.Name) and n.id in gl:
                        out.setdefault((fi.module, n.id), []).append(fi)
    return out


class Reads:
    """reads(fi, consts): (globals read, repo functions called, ext calls)."""

    def __init__(self, repo, analysis, plat):
        self.repo = repo
        self.A = analysis
        self.plat = plat
        self.memo = {}
        self.stack = set()

    def reads(self, fi, consts=None):
        consts = consts or {}
        key = (id(fi.node), tuple(sorted((k, repr(v)) for k, v in consts.items())))
        if key in self.memo:
            return self.memo[key]
        if key in self.stack:
            return (frozenset(), frozenset(), frozenset())
        self.stack.add(key)
        try:
            res = self._compute(fi, consts)
        finally:
            self.stack.discard(key)
        self.memo[key] = res
        return res

    def _live_nodes(self, fi, consts):
        """CFG nodes reachable when parameters have the given constant values."""
        cfg = self.A.cfg(fi)
        dead = set()
        from .pyrepo import eval_cond, platform_flags
        flags = platform_flags(self.plat)
        for n in cfg.nodes:
            if n.kind == "branch" and n.polarity in (True, False):
                v = eval_cond(n.expr, flags)
                if v is None:
                    v = self._eval(n.expr, consts)
                if v is not None and v != n.polarity:
                    dead.add(n)
        return cfg, cfg.reachable(cfg.entry, avoid=dead)

    @staticmethod
    def _eval(e, consts):
        if isinstance(e, ast.Name) and e.id in consts:
            return bool(consts[e.id])
        if isinstance(e, ast.UnaryOp) and isinstance(e.op, ast.Not):
            v = Reads._eval(e.operand, consts)
            return None if v is None else not v
        if isinstance(e, ast.Compare) and len(e.ops) == 1 and isinstance(e.left, ast.Name) \
                and e.left.id in consts and isinstance(e.comparators[0], ast.Constant):
            l, r = consts[e.left.id], e.comparators[0].value
            if isinstance(e.ops[0], ast.Is):
                return l is r
            if isinstance(e.ops[0], ast.IsNot):
                return l is not r
            if isinstance(e.ops[0], ast.Eq):
                return l == r
        return None

    def _compute(self, fi, consts):
        cfg, live = self._live_nodes(fi, consts)
        mod = self.repo.mod(fi.module)
        globs, funcs, exts = set(), set(), set()
        locals_ = {a.arg for a in fi.node.args.args + fi.node.args.kwonlyargs}
        for st in ast.walk(fi.node):
            if isinstance(st, ast.Name) and isinstance(st.ctx, ast.Store):
                locals_.add(st.id)
        declared_global = set()
        for st in ast.walk(fi.node):
            if isinstance(st, ast.Global):
                declared_global |= set(st.names)
        locals_ -= declared_global
        cg = {id(c): t for c, t in self.A.calls(fi, self.plat)}
        for n in live:
            exprs = []
            if n.kind in ("test", "for"):
                exprs = [n.expr]
            elif n.kind == "with":
                exprs = [i.context_expr for i in n.stmt.items]
            elif n.kind in ("stmt", "return", "raise"):
                exprs = [n.stmt]
            for e in exprs:
                if e is None:
                    continue
                for sub in ast.walk(e):
                    if isinstance(sub, ast.Name) and isinstance(sub.ctx, ast.Load) \
                            and sub.id not in locals_ and sub.id in mod.assigns:
                        globs.add((fi.module, sub.id))
                for c in calls_in(e):
                    for t in cg.get(id(c), []):
                        if t[0] == "func":
                            callee = t[1]
                            funcs.add(callee.fq)
                            bound = isinstance(c.func, ast.Attribute) and callee.cls is not None
                            am = map_args(c, callee.node, bound)
                            cc = {}
                            for p, a in am.items():
                                if isinstance(a, ast.Constant):
                                    cc[p] = a.value
                                elif isinstance(a, ast.Name) and a.id in consts:
                                    cc[p] = consts[a.id]
                            g2, f2, e2 = self.reads(callee, cc)
                            globs |= g2
                            funcs |= f2
                            exts |= e2
                        elif t[0] in ("ext", "native"):
                            exts.add(t[1])
        return (frozenset(globs), frozenset(funcs), frozenset(exts))
