"""Small AST helpers shared by the property checkers."""

import ast

from .pyrepo import calls_in, dotted, norm_stmt


def method_calls(node, attr, base=None):
    """Calls `<base>.attr(...)` inside node (base=None: any receiver)."""
    out = []
    for c in calls_in(node):
        if isinstance(c.func, ast.Attribute) and c.func.attr == attr:
            if base is None or dotted(c.func.value) == base:
                out.append(c)
    return out


def name_calls(node, name):
    return [c for c in calls_in(node) if dotted(c.func) == name]


def stmts_of(func):
    """All statements of a function, not nested defs."""
    out = []

    def rec(body):
        for st in body:
            out.append(st)
            if isinstance(st, (ast.FunctionDef, ast.AsyncFunctionDef, ast.ClassDef)):
                continue
            for f in ("body", "orelse", "finalbody"):
                rec(getattr(st, f, []) or [])
            for h in getattr(st, "handlers", []) or []:
                rec(h.body)
    rec(func.body)
    return out


def enclosing_trys(func, target):
    """List of ast.Try whose *body* (not handlers) lexically contains target,
    innermost last."""
    out = []

    def rec(body, stack):
        for st in body:
            if st is target or any(s is target for s in ast.walk(st)):
                if isinstance(st, ast.Try):
                    inbody = any(any(s is target for s in ast.walk(b)) for b in st.body)
                    if inbody:
                        rec(st.body, stack + [st])
                        return True
                    for h in st.handlers:
                        if rec(h.body, stack):
                            return True
                    if rec(st.orelse, stack) or rec(st.finalbody, stack):
                        return True
                    return False
                if st is target:
                    out.extend(stack)
                    return True
                found = False
                for f in ("body", "orelse", "finalbody"):
                    if rec(getattr(st, f, []) or [], stack):
                        found = True
                        break
                if not found:
                    # target is an expression inside a simple statement / header
                    out.extend(stack)
                return True
        return False
    rec(func.body, [])
    return out


def handler_catches(h, names, hierarchy=None):
    """Does except-clause h catch any of the exception class names?"""
    from .cfg import handler_names
    hn = handler_names(h)
    if hn is None:
        return True
    hierarchy = hierarchy or EXC_PARENTS
    for n in names:
        cur = n
        while cur:
            if cur in hn:
                return True
            cur = hierarchy.get(cur)
    return False


EXC_PARENTS = {
    "ZombieProcess": "NoSuchProcess",
    "NoSuchProcess": "Error",
    "AccessDenied": "Error",
    "TimeoutExpired": "Error",
    "Error": "Exception",
    "FileNotFoundError": "OSError",
    "ProcessLookupError": "OSError",
    "PermissionError": "OSError",
    "ChildProcessError": "OSError",
    "InterruptedError": "OSError",
    "NotADirectoryError": "OSError",
    "OSError": "Exception",
    "ValueError": "Exception",
    "KeyError": "LookupError",
    "IndexError": "LookupError",
    "LookupError": "Exception",
    "TypeError": "Exception",
    "OverflowError": "ArithmeticError",
    "ZeroDivisionError": "ArithmeticError",
    "ArithmeticError": "Exception",
    "AttributeError": "Exception",
    "NotImplementedError": "RuntimeError",
    "RuntimeError": "Exception",
    "ImportError": "Exception",
    "AssertionError": "Exception",
    "UnicodeDecodeError": "ValueError",
    "StopIteration": "Exception",
    "_Ipv6UnsupportedError": "Exception",
    "Exception": "BaseException",
    "GeneratorExit": "BaseException",
    "KeyboardInterrupt": "BaseException",
    "BaseException": None,
}


def is_subclass(name, ancestor):
    cur = name
    while cur:
        if cur == ancestor:
            return True
        cur = EXC_PARENTS.get(cur)
    return False


def body_escapes(stmts):
    """Does a statement list contain a raise/return at its top level flow?"""
    for st in stmts:
        for s in ast.walk(st):
            if isinstance(s, (ast.Raise, ast.Return)):
                return True
    return False


def const_value(e):
    if isinstance(e, ast.Constant):
        return e.value
    if isinstance(e, ast.UnaryOp) and isinstance(e.op, ast.USub) \
            and isinstance(e.operand, ast.Constant):
        return -e.operand.value
    raise ValueError(norm_stmt(e))


def order_rel(e):
    """(lo, op, hi) with op in {'<', '<='} for a single ordering comparison,
    whichever way round it is written; operands as normalised text.  None for
    anything else."""
    import ast as _ast
    from .pyrepo import norm_stmt
    if not (isinstance(e, _ast.Compare) and len(e.ops) == 1):
        return None
    a = norm_stmt(e.left).replace(" ", "")
    b = norm_stmt(e.comparators[0]).replace(" ", "")
    t = type(e.ops[0])
    if t is _ast.Lt:
        return (a, "<", b)
    if t is _ast.LtE:
        return (a, "<=", b)
    if t is _ast.Gt:
        return (b, "<", a)
    if t is _ast.GtE:
        return (b, "<=", a)
    return None


def deref(fnode, e, depth=4):
    """Follow single-assignment temporaries: an expression in which every local
    Name that is assigned exactly once in `fnode` (plain `t = E`, not a loop
    target / augmented / parameter) is replaced by its defining expression.
    Returns a new expression tree; the original is not modified."""
    import ast as _ast
    import copy as _copy
    defs = {}
    multi = set()
    params = {a.arg for a in fnode.args.posonlyargs + fnode.args.args + fnode.args.kwonlyargs}
    for st in _ast.walk(fnode):
        tg = []
        if isinstance(st, _ast.Assign):
            tg = [(t, st.value) for t in st.targets]
        elif isinstance(st, (_ast.AugAssign, _ast.AnnAssign)):
            tg = [(st.target, None)]
        elif isinstance(st, (_ast.For, _ast.AsyncFor)):
            tg = [(st.target, None)]
        elif isinstance(st, _ast.NamedExpr):
            tg = [(st.target, None)]
        elif isinstance(st, (_ast.With, _ast.AsyncWith)):
            tg = [(i.optional_vars, None) for i in st.items if i.optional_vars is not None]
        for t, v in tg:
            for x in _ast.walk(t):
                if isinstance(x, _ast.Name) and isinstance(x.ctx, (_ast.Store, _ast.Del)):
                    if x.id in defs or v is None or t is not x:
                        multi.add(x.id)
                    defs[x.id] = v
    def container(v):
        # a name bound to a fresh mutable container stands for the object that is
        # mutated afterwards, not for the literal it was created from
        if isinstance(v, (_ast.Dict, _ast.List, _ast.Set)):
            return True
        if isinstance(v, _ast.Call):
            from .pyrepo import dotted
            nm = (dotted(v.func) or "").split(".")[-1]
            if nm in ("defaultdict", "OrderedDict", "deque", "bytearray"):
                return True
            return nm in ("dict", "list", "set") and not v.args and not v.keywords
        return False
    ok = {k: v for k, v in defs.items() if k not in multi and k not in params and v is not None
          and not container(v)}

    class R(_ast.NodeTransformer):
        def __init__(self, d):
            self.d = d

        def visit_Name(self, n):
            if isinstance(n.ctx, _ast.Load) and n.id in ok and self.d > 0:
                return R(self.d - 1).visit(_copy.deepcopy(ok[n.id]))
            return n
    return R(depth).visit(_copy.deepcopy(e))


def none_to_default(st, name, default=0):
    """Is `st` a re-binding of `name` that only replaces None by `default` and
    leaves every other value alone?  Forms: `name = D if name is None else name`,
    `name = name if name is not None else D`.  (The statement form
    `if name is None: name = D` is recognised by its dominating fact instead.)"""
    import ast as _ast
    from .pyrepo import dotted
    if not (isinstance(st, _ast.Assign) and len(st.targets) == 1
            and dotted(st.targets[0]) == name and isinstance(st.value, _ast.IfExp)):
        return False
    e = st.value
    t = e.test
    if not (isinstance(t, _ast.Compare) and len(t.ops) == 1 and dotted(t.left) == name
            and isinstance(t.comparators[0], _ast.Constant) and t.comparators[0].value is None):
        return False

    def isd(x):
        return isinstance(x, _ast.Constant) and x.value == default and x.value is not None \
            and not isinstance(x.value, bool)
    if isinstance(t.ops[0], _ast.Is):
        return isd(e.body) and dotted(e.orelse) == name
    if isinstance(t.ops[0], _ast.IsNot):
        return dotted(e.body) == name and isd(e.orelse)
    return False


def path_templates(repo, fi, e, depth=3):
    """All string templates the path expression `e` (evaluated inside function
    `fi`) can denote: constants are kept, every other operand becomes a
    `{<source>}` placeholder.  Understands f-strings (nested ones are spliced),
    `+`, `%`, `.format()`, `os.path.join()`, single-assignment temporaries, and
    PARAMETERS of `fi`: a parameter stands for its constant default and for the
    constant arguments passed at the call sites of `fi` in its own module (the
    placeholder is kept as well when some call site passes a non-constant).
    Returns a set of strings."""
    import ast as _ast
    import itertools as _it
    from .pyrepo import dotted, norm_stmt

    fnode = fi.node
    a = fnode.args
    params = [x.arg for x in a.posonlyargs + a.args]
    kwonly = [x.arg for x in a.kwonlyargs]

    def param_values(name):
        vals = set()
        if name in params:
            pos = params.index(name)
            ndef = len(a.defaults)
            k = pos - (len(params) - ndef)
            if 0 <= k < ndef:
                vals |= tpl(a.defaults[k], depth - 1)
        elif name in kwonly:
            d = a.kw_defaults[kwonly.index(name)]
            if d is not None:
                vals |= tpl(d, depth - 1)
        else:
            return None
        if depth <= 0:
            return vals | {"{" + name + "}"}
        is_method = fi.cls is not None and params and params[0] in ("self", "cls")
        for g in repo.all_funcs(fi.module):
            for c in calls_in_all(g.node):
                nm = dotted(c.func) or ""
                if nm.split(".")[-1] != fi.name:
                    continue
                if is_method and "." not in nm:
                    continue
                got = None
                for kw in c.keywords:
                    if kw.arg == name:
                        got = kw.value
                if got is None and name in params:
                    i = params.index(name) - (1 if is_method else 0)
                    if 0 <= i < len(c.args) and not any(isinstance(x, _ast.Starred) for x in c.args):
                        got = c.args[i]
                if got is not None:
                    vals |= path_templates(repo, g, got, depth - 1)
        return vals

    def tpl(x, d):
        if isinstance(x, _ast.Constant):
            if isinstance(x.value, bytes):
                return {x.value.decode("latin-1")}
            return {str(x.value)}
        if isinstance(x, _ast.JoinedStr):
            parts = []
            for v in x.values:
                if isinstance(v, _ast.Constant):
                    parts.append({str(v.value)})
                else:
                    parts.append(tpl(v.value, d))
            return {"".join(p) for p in _it.islice(_it.product(*parts), 64)}
        if isinstance(x, _ast.Name):
            pv = param_values(x.id)
            if pv is not None:
                return pv or {"{" + x.id + "}"}
            if d > 0:
                y = deref(fnode, x, depth=1)
                if not (isinstance(y, _ast.Name) and y.id == x.id):
                    return tpl(y, d - 1)
            return {"{" + x.id + "}"}
        if isinstance(x, _ast.BinOp) and isinstance(x.op, _ast.Add):
            return {l + r for l in tpl(x.left, d) for r in tpl(x.right, d)}
        if isinstance(x, _ast.BinOp) and isinstance(x.op, _ast.Mod) \
                and isinstance(x.left, _ast.Constant) and isinstance(x.left.value, str):
            ops = x.right.elts if isinstance(x.right, _ast.Tuple) else [x.right]
            pieces = x.left.value.replace("%%", "\0").split("%")
            if len(pieces) - 1 == len(ops):
                outs = {pieces[0]}
                for p, o in zip(pieces[1:], ops):
                    outs = {s + v + p[1:] for s in outs for v in tpl(o, d)}
                return {s.replace("\0", "%") for s in outs}
        if isinstance(x, _ast.Call):
            nm = dotted(x.func) or ""
            if nm in ("os.path.join", "path.join"):
                outs = {""}
                for i, o in enumerate(x.args):
                    outs = {(s + "/" if i else s) + v for s in outs for v in tpl(o, d)}
                return outs
            if isinstance(x.func, _ast.Attribute) and x.func.attr == "format" \
                    and isinstance(x.func.value, _ast.Constant) \
                    and isinstance(x.func.value.value, str) and not x.keywords:
                pieces = x.func.value.value.split("{}")
                if len(pieces) - 1 == len(x.args):
                    outs = {pieces[0]}
                    for p, o in zip(pieces[1:], x.args):
                        outs = {s + v + p for s in outs for v in tpl(o, d)}
                    return outs
            if nm in ("str", "os.fsdecode", "os.fspath") and len(x.args) == 1:
                return tpl(x.args[0], d)
        return {"{" + norm_stmt(x) + "}"}

    return tpl(e, depth)


def calls_in_all(node):
    """Every Call under `node`, nested functions included."""
    import ast as _ast
    return [n for n in _ast.walk(node) if isinstance(n, _ast.Call)]


def guard_truth_table(guards):
    """guards: [(expr, polarity)] - the conjunction under which a statement runs.
    Returns (atoms, table): atoms is the sorted list of leaf propositions (text),
    table maps a tuple of booleans (one per atom) to the truth of the conjunction.
    Leaves: `a in b` (`not in` is its negation), `a is None` (`is not`: negation),
    `a == b` (`!=`: negation), `a < b` (`>=` flipped...: kept as written), any other
    expression by its truthiness.  `and`/`or`/`not`/conditional expressions are
    evaluated.  The spelling of the test (nesting, De Morgan, early exits that the
    CFG turned into negated guards) therefore does not matter."""
    import ast as _ast
    import itertools as _it
    from .pyrepo import norm_stmt

    guards = [(e, p) for e, p in guards if p is True or p is False]   # not loop/iter edges
    atoms = set()

    def leaf(e):
        if isinstance(e, _ast.Compare) and len(e.ops) == 1:
            l, r = norm_stmt(e.left), norm_stmt(e.comparators[0])
            op = e.ops[0]
            if isinstance(op, (_ast.In, _ast.NotIn)):
                return f"{l} in {r}", isinstance(op, _ast.NotIn)
            if isinstance(op, (_ast.Is, _ast.IsNot)):
                return f"{l} is {r}", isinstance(op, _ast.IsNot)
            if isinstance(op, (_ast.Eq, _ast.NotEq)):
                a, b = sorted((l, r))
                return f"{a} == {b}", isinstance(op, _ast.NotEq)
            if isinstance(op, (_ast.Lt, _ast.GtE)):
                return f"{l} < {r}", isinstance(op, _ast.GtE)
            if isinstance(op, (_ast.Gt, _ast.LtE)):
                return f"{r} < {l}", isinstance(op, _ast.LtE)
        return norm_stmt(e), False

    def collect(e):
        if isinstance(e, _ast.BoolOp):
            for v in e.values:
                collect(v)
        elif isinstance(e, _ast.UnaryOp) and isinstance(e.op, _ast.Not):
            collect(e.operand)
        elif isinstance(e, _ast.IfExp):
            collect(e.test), collect(e.body), collect(e.orelse)
        elif isinstance(e, _ast.Constant):
            pass
        else:
            atoms.add(leaf(e)[0])

    def ev(e, env):
        if isinstance(e, _ast.BoolOp):
            vals = [ev(v, env) for v in e.values]
            return all(vals) if isinstance(e.op, _ast.And) else any(vals)
        if isinstance(e, _ast.UnaryOp) and isinstance(e.op, _ast.Not):
            return not ev(e.operand, env)
        if isinstance(e, _ast.IfExp):
            return ev(e.body, env) if ev(e.test, env) else ev(e.orelse, env)
        if isinstance(e, _ast.Constant):
            return bool(e.value)
        a, neg = leaf(e)
        return env[a] != neg

    for e, _ in guards:
        collect(e)
    names = sorted(atoms)
    table = {}
    if len(names) > 12:
        return names, None
    for vals in _it.product((False, True), repeat=len(names)):
        env = dict(zip(names, vals))
        table[vals] = all(ev(e, env) == bool(pol) for e, pol in guards)
    return names, table
