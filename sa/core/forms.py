"""E4 (second half): canonical sources, polynomial forms, units.

canon()    rewrites a term so that a value fetched from a {key: f(column)} table
           built while scanning a file becomes f(column of the record whose key
           column equals that key)  ->  ("rec", file, key).
srcname()  short, stable name of a source atom:  stat@rpar.11, meminfo[MemTotal:].1,
           statm#0.1, net/dev@colon.8 ...
Poly/Rat   sparse polynomials with Fraction coefficients; equality of rational
           functions by cross multiplication; sign analysis over non-negative atoms.
units      monomials over base units with a closed conversion table.
"""

from fractions import Fraction

from .absint import alternatives, is_top, pretty


# ---------------------------------------------------------------------- canon
def canon(t):
    if not isinstance(t, tuple) or not t:
        return t
    k = t[0]
    if k in ("strip", "decode"):
        return canon(t[1])
    if k == "when":
        return ("when", tuple((canon(c), tr) for c, tr in t[1]), canon(t[2]))
    if k == "dval" or k == "dget":
        d, key = canon(t[1]), canon(t[2])
        dflt = canon(t[3]) if k == "dget" else None
        if isinstance(d, tuple) and d and d[0] == "dictof" and key[0] == "const":
            kt, vt = d[1], d[2]
            line = _find_line(kt)
            if line is not None:
                rec = ("rec", line[1], key[1], srcpos(kt, line))
                v = _subst_line(vt, line, rec)
                if dflt is not None:
                    return ("opt", v, dflt)
                return v
        if dflt is not None:
            return ("dget", d, key, dflt)
        return ("dval", d, key)
    out = tuple(canon(x) if isinstance(x, tuple) else x for x in t)
    # a selection condition attached to an operand (`float(split(when(C, line))[1])`,
    # produced when the selected item is used after the loop) is a condition on the
    # whole value: hoist it, so that it reads like `when(C, float(split(line)[1]))`
    if k in ("call", "split", "idx", "slice", "bin") :
        ws = [i for i, x in enumerate(out) if isinstance(x, tuple) and x and x[0] == "when"]
        if len(ws) == 1:
            i = ws[0]
            inner = out[:i] + (out[i][2],) + out[i + 1:]
            return ("when", out[i][1], canon(inner))
    return out


def expand(t, limit=48):
    """Distribute phi / gphi / opt / when out of arithmetic: the list of
    join-free alternatives of a value (bounded)."""
    if not isinstance(t, tuple) or not t:
        return [t]
    k = t[0]
    if k == "phi":
        out = []
        for x in t[1:]:
            out += expand(x, limit)
        return _dedup(out)[:limit]
    if k == "gphi":
        return _dedup(expand(t[2], limit) + expand(t[3], limit))[:limit]
    if k == "opt":
        return _dedup(expand(t[1], limit) + expand(t[2], limit))[:limit]
    if k == "when":
        return expand(t[2], limit)
    if k in ("bin", "neg", "call", "nt", "tuple", "list"):
        parts = [[x] if not isinstance(x, tuple) else expand(x, limit) for x in t]
        out = [()]
        for p in parts:
            out = [o + (x,) for o in out for x in p]
            if len(out) > limit:
                out = out[:limit]
        return _dedup(out)
    return [t]


def _dedup(xs):
    out = []
    for x in xs:
        if x not in out:
            out.append(x)
    return out


def unwhen(t):
    """(conditions, value) of a guarded value."""
    if isinstance(t, tuple) and t and t[0] == "when":
        c, v = unwhen(t[2])
        return list(t[1]) + c, v
    return [], t


def srcinfo(t):
    """Structured description of a source atom:
       dict(file=, cut=, col=, sep=, maxsplit=, conv=) or None."""
    if not isinstance(t, tuple) or not t:
        return None
    k = t[0]
    if k == "call" and t[1] in ("int", "float") and len(t) >= 3:
        d = srcinfo(t[2])
        if d is not None:
            d = dict(d)
            d["conv"] = t[1]
            d["base"] = t[3][1] if len(t) > 3 and t[3][0] == "const" else None
        return d
    if k in ("strip", "decode"):
        return srcinfo(t[1])
    if k == "idx" and isinstance(t[1], tuple) and t[1] and t[1][0] == "split":
        sp = t[1]
        d = _cutinfo(sp[1])
        if d is None:
            return None
        d["col"] = t[2]
        d["sep"] = sp[2][1] if sp[2][0] == "const" else "?"
        d["maxsplit"] = sp[3][1] if sp[3][0] == "const" else "?"
        return d
    return None


def _cutinfo(src):
    if not isinstance(src, tuple) or not src:
        return None
    k = src[0]
    if k in ("strip", "decode"):
        return _cutinfo(src[1])
    if k == "rec":
        return {"file": short(src[1]), "cut": ("rec", src[2], src[3])}
    if k == "line":
        n = src[2]
        return {"file": short(src[1]), "cut": ("line", n)}
    if k == "file":
        return {"file": short(src[1]), "cut": ("whole",)}
    if k == "slice":
        d = _cutinfo(src[1])
        if d is None:
            return None
        lo, hi = src[2], src[3]

        def mark(x):
            off = 0
            if x == ("const", None):
                return None
            if x[0] == "bin" and x[1] == "+" and x[3][0] == "const":
                off = x[3][1]
                x = x[2]
            if x[0] == "find" and x[2][0] == "const":
                return ("find", x[2][1], x[3], off)
            if x[0] == "const":
                return ("abs", x[1])
            return ("?", pretty(x))
        d["slice"] = (mark(lo), mark(hi))
        return d
    return None


def _find_line(t):
    """The ("line", T, ("from", k)) term a key expression is built from."""
    if isinstance(t, tuple) and t:
        if t[0] == "line" and isinstance(t[2], tuple):
            return t
        for x in t[1:]:
            if isinstance(x, tuple):
                r = _find_line(x)
                if r is not None:
                    return r
    return None


def srcpos(keyterm, line):
    """How the key column is cut out of the line (e.g. split()[0])."""
    return pretty(_subst_line(keyterm, line, ("L",)))


def _subst_line(t, line, rec):
    if t == line:
        return rec
    if isinstance(t, tuple):
        return tuple(_subst_line(x, line, rec) if isinstance(x, tuple) else x for x in t)
    return t


def short(tmpl):
    s = tmpl[1] if isinstance(tmpl, tuple) and tmpl[0] in ("tmpl", "const") else pretty(tmpl)
    if isinstance(s, bytes):
        s = s.decode()
    s = str(s)
    for p in ("{procfs}/{pid}/", "{procfs}/", "/sys/class/", "/sys/devices/system/cpu/"):
        if s.startswith(p):
            s = s[len(p):]
            if p == "{procfs}/{pid}/":
                s = "pid/" + s
            break
    return s


def _b(x):
    return x.decode() if isinstance(x, bytes) else str(x)


def srcname(t):
    """Stable name of a source atom, or None if t is not a recognised source."""
    if not isinstance(t, tuple) or not t:
        return None
    k = t[0]
    if k == "call" and t[1] in ("int", "float") and len(t) >= 3:
        inner = srcname(t[2])
        if inner and len(t) > 3 and t[3][0] == "const":
            return f"{inner}:base{t[3][1]}"
        return inner
    if k in ("strip", "decode"):
        return srcname(t[1])
    if k == "idx":
        base, i = t[1], t[2]
        if isinstance(base, tuple) and base and base[0] == "split":
            src = base[1]
            sep = base[2][1] if base[2][0] == "const" else "?"
            mx = base[3][1] if base[3][0] == "const" else "?"
            suffix = "" if (sep is None and mx is None) else \
                f"/sep={_b(sep)!r}" + (f",max={mx}" if mx is not None else "")
            s = _cut(src)
            if s:
                return f"{s}.{i if not isinstance(i, tuple) else pretty(i)}{suffix}"
        if isinstance(base, tuple) and base and base[0] == "idx" and isinstance(base[1], tuple) \
                and base[1][0] == "findall":
            fa = base[1]
            rg = fa[1][1] if fa[1][0] == "const" else pretty(fa[1])
            return f"{_cut(fa[2]) or pretty(fa[2])}~{_b(rg)}[{base[2]}].{i}"
        if isinstance(base, tuple) and base and base[0] == "findall":
            rg = base[1][1] if base[1][0] == "const" else pretty(base[1])
            return f"{_cut(base[2]) or pretty(base[2])}~{_b(rg)}[{i}]"
    if k == "native":
        return t[1]
    return None


def _cut(src):
    """Name of the text a split() is applied to."""
    if not isinstance(src, tuple) or not src:
        return None
    k = src[0]
    if k in ("strip", "decode"):
        return _cut(src[1])
    if k == "rec":
        return f"{short(src[1])}[{_b(src[2])}]"
    if k == "line":
        n = src[2]
        if isinstance(n, tuple):
            n = f"{n[1]}+"
        return f"{short(src[1])}#{n}"
    if k == "file":
        return f"{short(src[1])}"
    if k == "slice":
        base = _cut(src[1])
        lo, hi = src[2], src[3]
        if base is None:
            return None

        def mark(x):
            # find(text, needle, which) + c
            off = 0
            if x[0] == "bin" and x[1] == "+" and x[3][0] == "const":
                off = x[3][1]
                x = x[2]
            if x[0] == "find" and x[2][0] == "const":
                return f"{x[3]}({_b(x[2][1])!r}){off:+d}" if off else f"{x[3]}({_b(x[2][1])!r})"
            if x[0] == "const":
                return str(x[1])
            return pretty(x)
        lo_s = mark(lo) if lo != ("const", None) else ""
        hi_s = mark(hi) if hi != ("const", None) else ""
        return f"{base}@[{lo_s}:{hi_s}]"
    return None


# ----------------------------------------------------------------- polynomials
class Poly:
    __slots__ = ("terms",)

    def __init__(self, terms=None):
        self.terms = {k: v for k, v in (terms or {}).items() if v != 0}

    @staticmethod
    def const(c):
        return Poly({(): Fraction(c)})

    @staticmethod
    def atom(name):
        return Poly({((name, 1),): Fraction(1)})

    def __add__(self, o):
        t = dict(self.terms)
        for k, v in o.terms.items():
            t[k] = t.get(k, 0) + v
        return Poly(t)

    def __neg__(self):
        return Poly({k: -v for k, v in self.terms.items()})

    def __sub__(self, o):
        return self + (-o)

    def __mul__(self, o):
        t = {}
        for k1, v1 in self.terms.items():
            for k2, v2 in o.terms.items():
                m = {}
                for a, p in k1 + k2:
                    m[a] = m.get(a, 0) + p
                key = tuple(sorted(m.items()))
                t[key] = t.get(key, 0) + v1 * v2
        return Poly(t)

    def __eq__(self, o):
        return isinstance(o, Poly) and self.terms == o.terms

    def __hash__(self):
        return hash(tuple(sorted(self.terms.items())))

    def is_zero(self):
        return not self.terms

    def is_const(self):
        return all(k == () for k in self.terms)

    def atoms(self):
        return {a for k in self.terms for a, _ in k}

    def nonneg(self, nonneg_atoms):
        """Sufficient: all coefficients >= 0 and every atom known non-negative."""
        return all(v >= 0 for v in self.terms.values()) and \
            all(a in nonneg_atoms for a in self.atoms())

    def __repr__(self):
        if not self.terms:
            return "0"
        parts = []
        for k, v in sorted(self.terms.items(), key=lambda kv: repr(kv[0])):
            mon = "*".join(a if p == 1 else f"{a}^{p}" for a, p in k)
            if not mon:
                parts.append(str(v))
            elif v == 1:
                parts.append(mon)
            else:
                parts.append(f"{v}*{mon}")
        return " + ".join(parts)


class Rat:
    __slots__ = ("num", "den", "tags")

    def __init__(self, num, den=None, tags=()):
        self.num = num
        self.den = den if den is not None else Poly.const(1)
        self.tags = tuple(tags)

    def __add__(self, o):
        return Rat(self.num * o.den + o.num * self.den, self.den * o.den, self.tags + o.tags)

    def __sub__(self, o):
        return Rat(self.num * o.den - o.num * self.den, self.den * o.den, self.tags + o.tags)

    def __mul__(self, o):
        return Rat(self.num * o.num, self.den * o.den, self.tags + o.tags)

    def __truediv__(self, o):
        return Rat(self.num * o.den, self.den * o.num, self.tags + o.tags)

    def same(self, o):
        return (self.num * o.den) == (o.num * self.den)

    def __repr__(self):
        if self.den == Poly.const(1):
            return repr(self.num)
        return f"({self.num}) / ({self.den})"


class NotPolynomial(Exception):
    pass


def to_rat(t, namer=None, clip_atoms=None):
    """Rational form of a numeric term. `namer(term)` names source atoms;
    max(0, x) becomes a clip atom (recorded in clip_atoms as non-negative)."""
    namer = namer or (lambda x: srcname(x) or pretty(x))
    if not isinstance(t, tuple) or not t:
        raise NotPolynomial(repr(t))
    k = t[0]
    if is_top(t):
        raise NotPolynomial("top: " + str(t[1:]))
    if k == "const":
        if isinstance(t[1], bool) or not isinstance(t[1], (int, float)):
            raise NotPolynomial(f"constant {t[1]!r}")
        return Rat(Poly.const(Fraction(t[1]).limit_denominator(10**9)
                              if isinstance(t[1], float) else t[1]))
    if k == "bin" and t[1] in ("+", "-", "*", "/"):
        a, b = to_rat(t[2], namer, clip_atoms), to_rat(t[3], namer, clip_atoms)
        if t[1] == "+":
            return a + b
        if t[1] == "-":
            return a - b
        if t[1] == "*":
            return a * b
        return a / b
    if k == "neg":
        return Rat(Poly.const(0)) - to_rat(t[1], namer, clip_atoms)
    if k == "call" and t[1] in ("int", "float") and len(t) == 3:
        n = srcname(t)
        if n:
            return Rat(Poly.atom(namer(t)))
        r = to_rat(t[2], namer, clip_atoms)
        return Rat(r.num, r.den, r.tags + ((t[1],),))
    if k == "call" and t[1] == "round" and len(t) >= 3:
        r = to_rat(t[2], namer, clip_atoms)
        nd = t[3][1] if len(t) > 3 and t[3][0] == "const" else 0
        return Rat(r.num, r.den, r.tags + (("round", nd),))
    if k == "call" and t[1] == "max" and len(t) == 4:
        z = [x for x in t[2:] if x[0] == "const" and x[1] == 0]
        o = [x for x in t[2:] if not (x[0] == "const" and x[1] == 0)]
        if len(z) == 1 and len(o) == 1:
            inner = to_rat(o[0], namer, clip_atoms)
            name = f"clip0({inner!r})"
            if clip_atoms is not None:
                clip_atoms[name] = inner
            return Rat(Poly.atom(name))
    if k == "call" and t[1] in ("max", "min") and len(t) == 4:
        cs = [x for x in t[2:] if x[0] == "const" and isinstance(x[1], (int, float))]
        o = [x for x in t[2:] if x[0] != "const"]
        if len(cs) == 1 and len(o) == 1:
            try:
                inner = to_rat(o[0], namer, clip_atoms)
                return Rat(Poly.atom(f"{t[1]}({cs[0][1]}, {inner!r})"))
            except NotPolynomial:
                pass
    return Rat(Poly.atom(namer(t)))


# ------------------------------------------------------------------------ units
def U(**kw):
    return tuple(sorted((k, v) for k, v in kw.items() if v))


DIMLESS = ()


def umul(a, b):
    d = dict(a)
    for k, v in b:
        d[k] = d.get(k, 0) + v
    return tuple(sorted((k, v) for k, v in d.items() if v))


def udiv(a, b):
    return umul(a, tuple((k, -v) for k, v in b))


def ustr(u):
    if u is None:
        return "?"
    if not u:
        return "1"
    return "*".join(k if v == 1 else f"{k}^{v}" for k, v in u)


# (unit, op, literal) -> unit
CONVERSIONS = {
    (U(kB=1), "*", 1024): U(B=1),
    (U(mC=1), "/", 1000): U(C=1),
    (U(kHz=1), "/", 1000): U(MHz=1),
    (U(MHz=1), "*", 1000): U(kHz=1),
    (DIMLESS, "*", 100): U(pct=1),
    (U(h=1), "*", 3600): U(s=1),
    (U(min=1), "*", 60): U(s=1),
    (U(ms=1), "/", 1000): U(s=1),
}

GLOB_UNITS = {
    "CLOCK_TICKS": U(tick=1, s=-1),
    "PAGESIZE": U(B=1, page=-1),
    "DISK_SECTOR_SIZE": U(B=1, sector=-1),
}


class UnitError(Exception):
    def __init__(self, msg, term=None):
        Exception.__init__(self, msg)
        self.term = term


def unit_of(t, atom_unit, prev_units=None):
    """Unit of a numeric term. atom_unit(term) -> unit | None (unknown ->
    treated as dimensionless scalar only for literals).  Raises UnitError on
    inconsistent arithmetic."""
    if not isinstance(t, tuple) or not t:
        return DIMLESS
    k = t[0]
    if k == "const":
        return "lit"
    u = atom_unit(t)
    if u is not None:
        return u
    if k == "glob":
        n = t[1].split(".", 1)[1]
        return GLOB_UNITS.get(n, DIMLESS)
    if k == "call" and t[1] in ("int", "float", "round", "abs") and len(t) >= 3:
        return unit_of(t[2], atom_unit, prev_units)
    if k == "call" and t[1] in ("min", "max", "sum"):
        us = [unit_of(x, atom_unit, prev_units) for x in t[2:]]
        return _same(us, t, f"{t[1]}() of different units")
    if k in ("phi", "gphi"):
        alts = [a for a in alternatives(t) if a != ("const", None)]
        us = [unit_of(a, atom_unit, prev_units) for a in alts]
        return _same(us, t, "alternatives with different units")
    if k == "opt":
        return _same([unit_of(t[1], atom_unit, prev_units),
                      unit_of(t[2], atom_unit, prev_units)], t, "default of another unit")
    if k == "loopsum":
        return unit_of(t[1], atom_unit, prev_units)
    if k == "when":
        return unit_of(t[2], atom_unit, prev_units)
    if k == "loopdep":
        # ("loopdep", name, body-with-("prev", name), value before the loop):
        # the unit must be a fixed point of one more iteration
        name, body, pre = t[1], t[2], t[3]
        pu = dict(prev_units or {})
        u0 = unit_of(pre, atom_unit, prev_units)
        pu[name] = None if u0 in ("lit", None) else u0
        u1 = unit_of(body, atom_unit, pu)
        pu[name] = None if u1 in ("lit", None) else u1
        try:
            u2 = unit_of(body, atom_unit, pu)
        except UnitError as e:
            raise UnitError(f"loop-carried variable `{name}` changes unit from one "
                            f"iteration to the next ({e}): a conversion inside the loop is "
                            f"re-applied to an already converted value", t)
        if u2 != u1 and u1 not in ("lit", None) and u2 not in ("lit", None):
            raise UnitError(f"loop-carried variable `{name}` has unit {ustr(u1)} after one "
                            f"iteration and {ustr(u2)} after two", t)
        return u1
    if k == "prev":
        if prev_units and t[1] in prev_units:
            return prev_units[t[1]]
        return None
    if k == "neg":
        return unit_of(t[1], atom_unit, prev_units)
    if k == "bin":
        op, a, b = t[1], t[2], t[3]
        ua, ub = unit_of(a, atom_unit, prev_units), unit_of(b, atom_unit, prev_units)
        if op in ("+", "-"):
            return _same([ua, ub], t, f"'{op}' of different units")
        if op in ("*", "/"):
            lit = None
            if ub == "lit" and b[0] == "const":
                lit, base = b[1], ua
            elif ua == "lit" and a[0] == "const" and op == "*":
                lit, base = a[1], ub
            if lit is not None:
                if base == "lit":
                    return "lit"
                if base is None:
                    return None
                conv = CONVERSIONS.get((base, op, lit))
                if conv is not None:
                    return conv
                return base          # dimensionless scalar
            if ua == "lit":
                ua = DIMLESS
            if ub == "lit":
                ub = DIMLESS
            if ua is None or ub is None:
                return None
            return umul(ua, ub) if op == "*" else udiv(ua, ub)
        return None
    return None


def _same(us, t, msg):
    real = [u for u in us if u not in ("lit", None)]
    if not real:
        return "lit" if us and all(u == "lit" for u in us) else None
    if any(u != real[0] for u in real):
        raise UnitError(f"{msg}: {', '.join(ustr(u) if u != 'lit' else 'literal' for u in us)}", t)
    # a non-zero literal mixed with a dimensioned value
    return real[0]
