"""Exhaustive evaluation of a small, flag-manipulating function over a finite
abstract domain (True / False / None / unknown).

Used for guard functions such as Process._raise_if_pid_reused(): instead of
recognising one spelling of its test, the body is evaluated for every
combination of the flags it reads and every outcome of the probes it calls
(given as a model), and the verdict is compared with the specification.  The
evaluation covers: assignments to locals and `self.<attr>`, if/elif/else,
raise, return, expression statements, boolean operators (short-circuit), `not`,
`is (not) None`, ==, != and conditional expressions.  Anything else makes the
function "outside the subset" (None is returned) - never a wrong verdict.
"""

import ast

from .pyrepo import dotted

UNK = "?"


class Outside(Exception):
    pass


class Outcome:
    __slots__ = ("kind", "exc", "value", "state", "trace", "node")

    def __init__(self, kind, state, trace, exc=None, value=None, node=None):
        self.kind, self.state, self.trace = kind, state, trace
        self.exc, self.value, self.node = exc, value, node

    def __repr__(self):
        return f"<{self.kind} {self.exc or self.value} {self.state} via {self.trace}>"


def run(fnode, state0, call_model, max_paths=4000):
    """All outcomes of executing fnode's body from attribute state `state0`
    (dict 'self.x' -> value).  call_model(name, state) -> [(value, new_state)]
    for the calls the model knows, None otherwise."""
    outcomes = []
    budget = [max_paths]

    def ev(e, loc, st, tr):
        """yield (value, state, trace) alternatives"""
        if isinstance(e, ast.Constant):
            yield e.value, st, tr
        elif isinstance(e, ast.Name):
            yield loc.get(e.id, UNK), st, tr
        elif isinstance(e, ast.Attribute):
            d = dotted(e)
            yield (st.get(d, UNK) if d else UNK), st, tr
        elif isinstance(e, ast.UnaryOp) and isinstance(e.op, ast.Not):
            for v, s2, t2 in ev(e.operand, loc, st, tr):
                yield (UNK if v == UNK else (not v)), s2, t2
        elif isinstance(e, ast.BoolOp):
            is_and = isinstance(e.op, ast.And)

            def chain(i, s_, t_):
                for v, s2, t2 in ev(e.values[i], loc, s_, t_):
                    if i == len(e.values) - 1:
                        yield v, s2, t2
                        continue
                    if v == UNK:
                        yield UNK, s2, t2                   # stops here ...
                        yield from chain(i + 1, s2, t2)      # ... or goes on
                    elif bool(v) != is_and:
                        yield v, s2, t2                      # short-circuit
                    else:
                        yield from chain(i + 1, s2, t2)
            yield from chain(0, st, tr)
        elif isinstance(e, ast.Compare) and len(e.ops) == 1:
            for a, s2, t2 in ev(e.left, loc, st, tr):
                for b, s3, t3 in ev(e.comparators[0], loc, s2, t2):
                    op = e.ops[0]
                    if UNK in (a, b):
                        yield UNK, s3, t3
                    elif isinstance(op, ast.Is):
                        yield a is b, s3, t3
                    elif isinstance(op, ast.IsNot):
                        yield a is not b, s3, t3
                    elif isinstance(op, ast.Eq):
                        yield a == b, s3, t3
                    elif isinstance(op, ast.NotEq):
                        yield a != b, s3, t3
                    else:
                        yield UNK, s3, t3
        elif isinstance(e, ast.IfExp):
            for c, s2, t2 in ev(e.test, loc, st, tr):
                if c == UNK or c:
                    yield from ev(e.body, loc, s2, t2)
                if c == UNK or not c:
                    yield from ev(e.orelse, loc, s2, t2)
        elif isinstance(e, ast.Call):
            name = dotted(e.func)
            alts = call_model(name, st) if name else None
            # arguments of unknown calls are evaluated for their effects only when
            # they are calls the model knows
            if alts is None:
                cur = [(st, tr)]
                for a in list(e.args) + [k.value for k in e.keywords]:
                    nxt = []
                    for s_, t_ in cur:
                        for _, s2, t2 in ev(a, loc, s_, t_):
                            nxt.append((s2, t2))
                    cur = nxt or cur
                for s_, t_ in cur:
                    yield UNK, s_, t_
            else:
                for v, s2 in alts:
                    yield v, s2, tr + (name,)
        elif isinstance(e, ast.JoinedStr) or isinstance(e, (ast.Tuple, ast.List, ast.Dict)):
            yield UNK, st, tr
        else:
            raise Outside(type(e).__name__)

    def block(stmts, loc, st, tr, k):
        """k(loc, st, tr): continuation when the block falls through."""
        if budget[0] <= 0:
            raise Outside("path budget")
        if not stmts:
            return k(loc, st, tr)
        s, rest = stmts[0], stmts[1:]

        def cont(l2, s2, t2):
            return block(rest, l2, s2, t2, k)
        if isinstance(s, ast.Expr):
            if isinstance(s.value, ast.Constant):
                return cont(loc, st, tr)
            for _, s2, t2 in ev(s.value, loc, st, tr):
                cont(loc, s2, t2)
            return
        if isinstance(s, ast.Pass) or isinstance(s, (ast.Import, ast.ImportFrom, ast.Global,
                                                       ast.Nonlocal)):
            return cont(loc, st, tr)
        if isinstance(s, ast.Assert):
            return cont(loc, st, tr)
        if isinstance(s, ast.Assign) and len(s.targets) == 1:
            t = s.targets[0]
            for v, s2, t2 in ev(s.value, loc, st, tr):
                if isinstance(t, ast.Name):
                    cont({**loc, t.id: v}, s2, t2)
                elif isinstance(t, ast.Attribute) and dotted(t):
                    cont(loc, {**s2, dotted(t): v}, t2)
                else:
                    raise Outside("assignment target")
            return
        if isinstance(s, ast.If):
            for c, s2, t2 in ev(s.test, loc, st, tr):
                budget[0] -= 1
                if c == UNK or c:
                    block(s.body + rest, loc, s2, t2, k)
                if c == UNK or not c:
                    block(s.orelse + rest, loc, s2, t2, k)
            return
        if isinstance(s, ast.Raise):
            exc = None
            if isinstance(s.exc, ast.Call):
                exc = (dotted(s.exc.func) or "?").split(".")[-1]
            elif s.exc is not None:
                exc = (dotted(s.exc) or "?").split(".")[-1]
            outcomes.append(Outcome("raise", st, tr, exc=exc, node=s))
            return
        if isinstance(s, ast.Return):
            if s.value is None:
                outcomes.append(Outcome("return", st, tr, value=None, node=s))
                return
            for v, s2, t2 in ev(s.value, loc, st, tr):
                outcomes.append(Outcome("return", s2, t2, value=v, node=s))
            return
        raise Outside(type(s).__name__)

    try:
        block(list(fnode.body), {}, dict(state0), (),
              lambda l, s, t: outcomes.append(Outcome("fall", s, t)))
    except Outside:
        return None
    return outcomes
