"""E4: abstract interpreter for parsing and arithmetic code.

Values are canonical *terms* (nested tuples) recording provenance: which file
template, which line, which split, which column, which arithmetic.  Control
flow is joined, never enumerated: an `if` yields ("gphi", cond, then, else) for
the variables that differ, try/except yields ("phi", ...) sets, loops are
evaluated once over an abstract element with accumulators summarised
(x += e  ->  x0 + loopsum(e | guard)).  Calls to repo functions are inlined to
a bounded depth.  Anything outside the supported subset becomes ("top", why);
a rule that needs a value which is top reports ANALYSIS-ERROR (fail closed).
"""

import ast

from .pyrepo import dotted, norm_stmt

TOP = ("top",)
BOT = ("bot",)
NONE = ("const", None)


def top(why=""):
    return ("top", why)


def is_top(t):
    return isinstance(t, tuple) and t and t[0] == "top"


def const(v):
    return ("const", v)


def phi(*xs):
    """Set join."""
    items = []
    for x in xs:
        if x == BOT:
            continue
        if isinstance(x, tuple) and x and x[0] == "phi":
            for y in x[1:]:
                if y not in items:
                    items.append(y)
        elif x not in items:
            items.append(x)
    if not items:
        return BOT
    if len(items) == 1:
        return items[0]
    if len(items) > 12:
        return top("join too wide")
    return ("phi",) + tuple(sorted(items, key=repr))


def alternatives(t):
    """Flatten phi / gphi into the list of alternative values."""
    if isinstance(t, tuple) and t:
        if t[0] == "phi":
            out = []
            for x in t[1:]:
                out += alternatives(x)
            return out
        if t[0] == "gphi":
            return alternatives(t[2]) + alternatives(t[3])
        if t[0] == "when":
            return alternatives(t[2])
    return [t]


def result_alternatives(t):
    """alternatives() for a function RESULT: a list/set comprehension or generator
    among the alternatives is materialised (listof / list), since the consumer of
    a result looks at its elements, not at the pending comprehension."""
    out = []
    for a in alternatives(t):
        if isinstance(a, tuple) and a and a[0] == "comp":
            out += alternatives(a[1].interp.comp_value(a))
        else:
            out.append(a)
    return out


def contains(t, pred):
    if pred(t):
        return True
    if isinstance(t, tuple):
        return any(contains(x, pred) for x in t if isinstance(x, tuple))
    return False


def subst(t, old, new):
    if t == old:
        return new
    if isinstance(t, tuple):
        return tuple(subst(x, old, new) if isinstance(x, tuple) else x for x in t)
    return t


class Closure:
    """A comprehension / lambda / nested function kept for later application."""

    def __init__(self, kind, node, env, interp, fi):
        self.kind = kind
        self.node = node
        self.env = env
        self.interp = interp
        self.fi = fi

    def __repr__(self):
        return f"<closure {self.kind}@{getattr(self.node, 'lineno', 0)}>"


class Env(dict):
    def copy(self):
        e = Env(self)
        return e


class ReturnSignal(Exception):
    pass


OS_CONSTS = {"os.O_RDONLY": 0, "os.O_WRONLY": 1, "os.O_RDWR": 2, "os.O_APPEND": 1024,
             "os.O_CREAT": 64, "os.O_TRUNC": 512, "os.F_OK": 0, "os.O_ACCMODE": 3}

PURE_BUILTINS = {"int", "float", "len", "round", "min", "max", "sum", "abs", "sorted",
                 "set", "list", "tuple", "str", "bool", "dict", "zip", "enumerate",
                 "range", "map", "repr", "isinstance", "reversed", "any", "all",
                 "frozenset", "hash", "type", "getattr", "hasattr", "iter", "next"}


class Interp:
    def __init__(self, repo, analysis, plat="linux", max_depth=6, consts=None):
        self.repo = repo
        self.A = analysis
        self.plat = plat
        self.max_depth = max_depth
        self.depth = 0
        self.loop_id = 0
        self.unsupported = []     # (where, what) for constructs evaluated to top
        self.consts = consts or {}   # forced values for names (configuration)
        self.force = {}              # local name -> term forced on every binding
        self.opaque = set()          # callee fq -> fresh ("sample", fq, n) per call
        self.impure_ext = {"time.time", "time.monotonic", "time.sleep"}
        self.inst = 0
        self.last_env = None
        self.namedtuples = self._collect_namedtuples()
        self.trace_calls = []
        from .effects import written_globals
        self.unstable = set(written_globals(repo))

    # ----------------------------------------------------------- named tuples
    def _collect_namedtuples(self):
        out = {}
        for mn, m in self.repo.modules.items():
            for name, vals in m.assigns.items():
                for v in vals:
                    if isinstance(v, ast.Call) and dotted(v.func) in (
                            "namedtuple", "collections.namedtuple") and len(v.args) >= 2:
                        f = self._nt_fields(v.args[1], mn)
                        if f is not None:
                            out[(mn, name)] = tuple(f)
        return out

    def _nt_fields(self, e, mn):
        if isinstance(e, (ast.List, ast.Tuple)):
            if all(isinstance(x, ast.Constant) for x in e.elts):
                return [x.value for x in e.elts]
        if isinstance(e, ast.Constant) and isinstance(e.value, str):
            return e.value.replace(",", " ").split()
        if isinstance(e, ast.BinOp) and isinstance(e.op, ast.Add):
            l = self._nt_fields(e.left, mn)
            r = self._nt_fields(e.right, mn)
            if l is not None and r is not None:
                return l + r
        if isinstance(e, ast.Attribute) and e.attr == "_fields":
            n = dotted(e.value)
            if n and (mn, n) in getattr(self, "namedtuples", {}):
                return list(self.namedtuples[(mn, n)])
            # defined earlier in the same module
            m = self.repo.mod(mn)
            for v in m.assigns.get(n, []):
                if isinstance(v, ast.Call) and len(v.args) >= 2:
                    return self._nt_fields(v.args[1], mn)
        if isinstance(e, ast.Call) and isinstance(e.func, ast.Attribute) \
                and e.func.attr == "join" and e.args:
            inner = self._nt_fields(e.args[0], mn)
            return inner
        return None

    def nt_lookup(self, fi, name):
        """fields of namedtuple `name` as visible from module of fi."""
        parts = name.split(".")
        mod = self.repo.mod(fi.module)
        if len(parts) == 1:
            if (fi.module, name) in self.namedtuples:
                return (fi.module, name), self.namedtuples[(fi.module, name)]
            imp = mod.imports.get(name)
            if imp and imp[0] == "name" and imp[1].startswith("psutil."):
                k = (imp[1].split(".", 1)[1], imp[2])
                if k in self.namedtuples:
                    return k, self.namedtuples[k]
        elif len(parts) == 2:
            head, n = parts
            tgt = self.repo._module_of(mod, head, self.plat)
            if tgt and tgt[0] == "repo" and (tgt[1], n) in self.namedtuples:
                return (tgt[1], n), self.namedtuples[(tgt[1], n)]
            if tgt and tgt[0] == "repo":
                m2 = self.repo.mod(tgt[1])
                imp = m2.imports.get(n)
                if imp and imp[0] == "name" and imp[1].startswith("psutil."):
                    k = (imp[1].split(".", 1)[1], imp[2])
                    if k in self.namedtuples:
                        return k, self.namedtuples[k]
        return None, None

    # --------------------------------------------------------------- function
    def summary(self, fi, args, kwargs):
        """Trusted summaries of psutil._common I/O helpers (their error
        behaviour is covered by the exception-escape analysis)."""
        if fi.module != "_common":
            return None
        n = fi.qual
        if n == "get_procfs_path":
            return ("sym", "procfs")
        if n in ("open_binary", "open_text") and args:
            return ("fobj", args[0])
        if n in ("cat", "bcat") and args:
            fb = kwargs.get("fallback", args[1] if len(args) > 1 else None)
            f = ("file", args[0])
            if fb is None or fb == ("glob", "_common._DEFAULT"):
                return f
            return phi(f, fb)
        if n == "debug":
            return NONE
        if n == "decode" and args:
            return ("decode", args[0])
        return None

    def call_function(self, fi, args, kwargs=None, self_term=None):
        """Evaluate repo function fi on argument terms; returns the result term."""
        kwargs = kwargs or {}
        sm = self.summary(fi, args, kwargs)
        if sm is not None:
            return sm
        if fi.fq in self.opaque:
            self.inst += 1
            return ("sample", fi.fq, self.inst)
        if self.depth >= self.max_depth:
            return top(f"inline depth at {fi.fq}")
        a = fi.node.args
        names = [p.arg for p in a.posonlyargs + a.args]
        env = Env()
        pos = list(args)
        if names and names[0] in ("self", "cls") and fi.cls is not None:
            env[names[0]] = self_term if self_term is not None else ("self", fi.module, fi.cls)
            names = names[1:]
        defaults = list(a.defaults)
        dmap = dict(zip((a.posonlyargs + a.args)[len(a.posonlyargs + a.args) - len(defaults):],
                        defaults))
        dmap = {k.arg: v for k, v in dmap.items()}
        for i, n in enumerate(names):
            if i < len(pos):
                env[n] = pos[i]
            elif n in kwargs:
                env[n] = kwargs[n]
            elif n in dmap:
                env[n] = self.expr(dmap[n], Env(), self._outer_fi(fi))
            else:
                env[n] = ("param", n)
        for p, d in zip(a.kwonlyargs, a.kw_defaults):
            if p.arg in kwargs:
                env[p.arg] = kwargs[p.arg]
            elif d is not None:
                env[p.arg] = self.expr(d, Env(), self._outer_fi(fi))
            else:
                env[p.arg] = ("param", p.arg)
        if a.vararg:
            env[a.vararg.arg] = ("tuple",) + tuple(pos[len(names):])
        for k, v in self.consts.items():
            if k in env and not k.startswith("@"):
                env[k] = v
        self.depth += 1
        try:
            rets = []
            is_gen = any(isinstance(n, (ast.Yield, ast.YieldFrom)) for n in _walk_own(fi.node))
            self.block(fi.node.body, env, fi, rets)
            if self.depth == 1:
                self.last_env = env
            if is_gen:
                ys = [r for k, r in rets if k == "yield"]
                return ("listof", phi(*ys)) if ys else ("listof", BOT)
            rs = [r for k, r in rets if k == "return"]
            if env.get("@live", True):
                rs.append(NONE)
            return phi(*rs) if rs else NONE
        finally:
            self.depth -= 1

    def _outer_fi(self, fi):
        return fi.parent if fi.parent is not None else self.repo._outer(fi)

    # ------------------------------------------------------------------ blocks
    def block(self, stmts, env, fi, rets):
        for st in stmts:
            if not env.get("@live", True):
                break
            self.stmt(st, env, fi, rets)

    def stmt(self, st, env, fi, rets):
        if isinstance(st, ast.Expr):
            if isinstance(st.value, ast.Constant):
                return
            if isinstance(st.value, ast.Yield):
                v = self.expr(st.value.value, env, fi) if st.value.value else NONE
                rets.append(("yield", self._guarded(env, v)))
                return
            if isinstance(st.value, ast.Call):
                self._call_stmt(st.value, env, fi)
                return
            self.expr(st.value, env, fi)
            return
        if isinstance(st, ast.Assign):
            v = self.expr(st.value, env, fi)
            for t in st.targets:
                self.assign(t, v, env, fi)
            return
        if isinstance(st, ast.AnnAssign):
            if st.value is not None:
                self.assign(st.target, self.expr(st.value, env, fi), env, fi)
            return
        if isinstance(st, ast.AugAssign):
            cur = self.expr(_load(st.target), env, fi)
            v = self.expr(st.value, env, fi)
            self.assign(st.target, self.binop(st.op, cur, v), env, fi)
            return
        if isinstance(st, ast.Return):
            v = self.expr(st.value, env, fi) if st.value is not None else NONE
            rets.append(("return", self._guarded(env, v)))
            env["@live"] = False
            return
        if isinstance(st, ast.Raise):
            env["@live"] = False
            env["@raised"] = True
            return
        if isinstance(st, (ast.Continue, ast.Break)):
            if isinstance(st, ast.Break):
                # the item at which the loop is left was selected by the conditions
                # met in this iteration: after the loop it is that item, not any item
                for nm_ in env.get("@looptargets", ()):
                    if nm_ in env:
                        env[nm_] = self._guarded(env, env[nm_])
            env["@live"] = False
            env["@loopjump"] = True
            if isinstance(st, ast.Break):
                env["@broke"] = True
            return
        if isinstance(st, ast.If):
            return self._if(st, env, fi, rets)
        if isinstance(st, (ast.For,)):
            return self._for(st, env, fi, rets)
        if isinstance(st, ast.While):
            return self._while(st, env, fi, rets)
        if isinstance(st, ast.With):
            for it in st.items:
                v = self.expr(it.context_expr, env, fi)
                if it.optional_vars is not None:
                    self.assign(it.optional_vars, v, env, fi)
            self.block(st.body, env, fi, rets)
            return
        if isinstance(st, ast.Try):
            return self._try(st, env, fi, rets)
        if isinstance(st, (ast.FunctionDef, ast.AsyncFunctionDef)):
            nested = [f for f in self.repo.funcs(fi.module, fi.qual + "." + st.name)
                      if f.node is st]
            env[st.name] = ("closure", Closure("def", st, env, self, nested[0] if nested else fi))
            return
        if isinstance(st, (ast.Pass, ast.Global, ast.Nonlocal, ast.Import,
                           ast.ImportFrom, ast.Assert, ast.Delete)):
            return
        self.unsupported.append((fi.fq, f"statement {type(st).__name__}"))

    def _guarded(self, env, v):
        """A value returned/yielded from inside a loop keeps the branch
        conditions met since the loop was entered (which line was selected)."""
        start = env.get("@loopconds")
        if start is None:
            return v
        conds = tuple(env.get("@conds", [])[start:])
        if not conds:
            return v
        return ("when", conds, v)

    # --------------------------------------------------------------------- if
    def _static(self, cond, env, fi):
        """True/False when the condition is decided by configuration."""
        from .pyrepo import eval_cond, platform_flags
        return None

    def _if(self, st, env, fi, rets):
        from .pyrepo import eval_cond, platform_flags
        v = eval_cond(st.test, platform_flags(self.plat))
        c = self.expr(st.test, env, fi)
        if v is None:
            v = self._truth(c)
        if v is True:
            return self.block(st.body, env, fi, rets)
        if v is False:
            return self.block(st.orelse, env, fi, rets)
        e1, e2 = env.copy(), env.copy()
        self._refine(c, True, e1)
        self._refine(c, False, e2)
        e1["@bb"] = len(e1.get("@conds", []))
        e2["@bb"] = len(e2.get("@conds", []))
        self.block(st.body, e1, fi, rets)
        self.block(st.orelse, e2, fi, rets)
        self._merge(env, [(e1, c), (e2, ("not", c))], gated=c)

    @staticmethod
    def _truth(c):
        if isinstance(c, tuple) and c and c[0] == "const":
            return bool(c[1])
        return None

    def _refine(self, cond, truth, env):
        """Record facts `len(x) == k` for later indexing decisions."""
        # one spelling per fact: `not X` false  ==  X true
        while isinstance(cond, tuple) and cond and cond[0] == "not" and len(cond) == 2:
            cond, truth = cond[1], not truth
        if isinstance(cond, tuple) and cond and cond[0] == "cmp" and truth:
            _, op, a, b = cond
            if op == "==" and isinstance(a, tuple) and a[0] == "call" and a[1] == "len" \
                    and b[0] == "const":
                env[("@len", a[2])] = b[1]
        # `x is None` / `x is not None` narrows a joined value
        if isinstance(cond, tuple) and cond and cond[0] == "cmp" \
                and cond[1] in ("is", "isnot") and cond[3] == NONE:
            isnone = (cond[1] == "is") == truth
            v = cond[2]
            for k in list(env):
                if isinstance(k, str) and not k.startswith("@") and env[k] == v:
                    if isnone:
                        env[k] = NONE
                    elif isinstance(v, tuple) and v and v[0] == "phi":
                        rest = [x for x in v[1:] if x != NONE]
                        env[k] = phi(*rest) if rest else v
                    elif isinstance(v, tuple) and v and v[0] == "dget" and v[3] == NONE:
                        # d.get(k) known not to be None: the key is there
                        env[k] = ("dval", v[1], v[2])
        if isinstance(cond, tuple) and cond and cond[0] == "and" and truth:
            for c in cond[1:]:
                self._refine(c, True, env)
            return
        env.setdefault("@conds", [])
        env["@conds"] = list(env["@conds"]) + [(cond, truth)]

    def _merge(self, env, branches, gated=None):
        """Join branch environments back into env."""
        live = [(e, c) for e, c in branches if e.get("@live", True)]
        if not live:
            env["@live"] = False
            # propagate loop-jump flag
            if any(e.get("@loopjump") for e, _ in branches):
                env["@loopjump"] = True
            # still merge container mutations (appends before continue)
            for e, _ in branches:
                if e.get("@loopjump"):
                    for k, v in e.items():
                        if isinstance(k, str) and not k.startswith("@") \
                                and isinstance(v, tuple) and v and v[0] in ("listof", "dictof"):
                            env[k] = _join_container(env.get(k, BOT), v)
            return
        # branches that jumped (continue/break) still carry side effects on
        # containers and on loop-carried scalars: they rejoin at the loop head
        keys = set()
        for e, _ in live:
            keys |= {k for k in e if not (isinstance(k, str) and k.startswith("@"))}
        for k in keys:
            vals = [e.get(k, BOT) for e, _ in live]
            if all(v == vals[0] for v in vals):
                env[k] = vals[0]
            elif all(_is_container(v) for v in vals):
                acc = vals[0]
                for v in vals[1:]:
                    acc = _join_container(acc, v)
                env[k] = acc
            elif gated is not None and len(live) == 2 and len(branches) == 2:
                env[k] = ("gphi", gated, self._narrowed(live[0][0], k, env),
                          self._narrowed(live[1][0], k, env))
            else:
                env[k] = phi(*vals)
        for e, _ in branches:
            if e.get("@loopjump") and not e.get("@live", True):
                env.setdefault("@jumped", [])
                env["@jumped"] = list(env["@jumped"]) + [e]
        if len(live) == 1 and len(branches) == 2:
            # the other branch left (return / raise / continue / break): what
            # follows runs under the surviving branch's condition, exactly as if
            # it were written in that branch
            env["@conds"] = list(live[0][0].get("@conds", env.get("@conds", [])))
            for k, v in live[0][0].items():
                if isinstance(k, tuple) and k and k[0] == "@len":
                    env[k] = v
        else:
            env["@conds"] = env.get("@conds", [])

    @staticmethod
    def _narrowed(e, k, env):
        """Inside a loop body, a branch whose nested alternative left the
        iteration (`else: continue`) goes on only under the nested test that
        stayed: a value it assigns keeps that selecting condition."""
        v = e.get(k, BOT)
        if e.get("@loopconds") is None or "@bb" not in e or v == env.get(k, BOT):
            return v
        extra = tuple(c for c in e.get("@conds", [])[e["@bb"]:] if c[1])
        if not extra or not (isinstance(v, tuple) and v) or v[0] in ("lv", "listof", "dictof"):
            return v
        return ("when", extra, v)

    # ------------------------------------------------------------------- loops
    def _iter_elem(self, it, env, fi):
        """(element term, unroll list or None)"""
        k = it[0] if isinstance(it, tuple) and it else None
        if k in ("tuple", "list"):
            return None, list(it[1:])
        if k == "fobj":
            start = env.get(("@rl", it), 0)
            return ("line", it[1], ("from", start)), None
        if k == "lines":
            return ("line", it[1], ("from", 0)), None
        if k == "slice" and isinstance(it[1], tuple) and it[1][0] == "lines":
            lo = it[2][1] if it[2][0] == "const" else 0
            return ("line", it[1][1], ("from", lo or 0)), None
        if k == "listof":
            return it[1], None
        if k == "dictof":
            return it[1], None
        if k == "dict":
            return None, [kk for kk, _ in it[1]]
        if k == "call" and it[1] == "range":
            return ("loopidx",), None
        if k == "call" and it[1] == "enumerate":
            el, un = self._iter_elem(it[2], env, fi)
            if un is not None:
                st = it[3][1] if len(it) > 3 and it[3][0] == "const" else 0
                return None, [("tuple", const(i + st), u) for i, u in enumerate(un)]
            return ("tuple", ("loopidx",), el), None
        if k == "call" and it[1] == "zip":
            els = [self._iter_elem(x, env, fi) for x in it[2:]]
            if all(u is not None for _, u in els) and len({len(u) for _, u in els}) == 1:
                n = len(els[0][1])
                return None, [("tuple",) + tuple(u[i] for _, u in els) for i in range(n)]
            return ("tuple",) + tuple(e if e is not None else ("elem", x)
                                      for (e, _), x in zip(els, it[2:])), None
        if k == "items":
            d = it[1]
            if d[0] == "dictof":
                return ("tuple", d[1], d[2]), None
            if d[0] == "dict":
                return None, [("tuple", kk, vv) for kk, vv in d[1]]
            return ("tuple", ("key", d), ("idx", d, "any")), None
        if k in ("values",):
            d = it[1]
            if d[0] == "dictof":
                return d[2], None
            if d[0] == "dict":
                return None, [vv for _, vv in d[1]]
            return ("idx", d, "any"), None
        if k == "call" and it[1] in ("sorted", "list", "set", "tuple", "reversed") and len(it) > 2:
            return self._iter_elem(it[2], env, fi)
        if k == "split":
            return ("idx", it, "any"), None
        if k == "nt":
            return None, list(it[3])
        if k == "gphi" or k == "phi":
            alts = alternatives(it)
            els = [self._iter_elem(a, env, fi)[0] for a in alts]
            els = [e for e in els if e is not None]
            if els:
                return phi(*els), None
        return ("elem", it), None

    def _assigned_in(self, body):
        out = set()
        for st in body:
            for n in _walk_own(st):
                if isinstance(n, ast.Name) and isinstance(n.ctx, ast.Store):
                    out.add(n.id)
        return out

    def _for(self, st, env, fi, rets):
        it = self.expr(st.iter, env, fi)
        el, unroll = self._iter_elem(it, env, fi)
        if unroll is not None and len(unroll) <= 24:
            for u in unroll:
                e = env
                self.assign(st.target, u, e, fi)
                sub = e.copy()
                self.block(st.body, sub, fi, rets)
                sub["@live"] = env.get("@live", True) if not sub.get("@raised") else True
                sub.pop("@loopjump", None)
                self._adopt(env, sub)
            self.block(st.orelse, env, fi, rets)
            return
        self._loop_body(st, el, env, fi, rets)
        self._orelse(st, env, fi, rets)

    def _orelse(self, st, env, fi, rets):
        """for/while ... else: the else body runs only when the loop was not
        left through `break`."""
        if not st.orelse:
            return
        has_break = any(isinstance(n, ast.Break) for b in st.body for n in _walk_no_loops(b))
        if not has_break:
            return self.block(st.orelse, env, fi, rets)
        e2 = env.copy()
        self.block(st.orelse, e2, fi, rets)
        e1 = env.copy()
        self._merge(env, [(e1, ("break",)), (e2, ("nobreak",))])

    def _while(self, st, env, fi, rets):
        self._loop_body(st, None, env, fi, rets)
        self._orelse(st, env, fi, rets)

    def _adopt(self, env, sub):
        for k, v in sub.items():
            if isinstance(k, str) and k.startswith("@") and k not in ("@conds",):
                continue
            env[k] = v
        env["@live"] = True

    def _loop_body(self, st, el, env, fi, rets):
        self.loop_id += 1
        lid = self.loop_id
        assigned = self._assigned_in(st.body)
        pre = {}
        body_env = env.copy()
        for w in assigned:
            if w in env:
                v = env[w]
                if isinstance(v, tuple) and v and v[0] in ("listof", "dictof", "dict", "list"):
                    continue
                pre[w] = v
                body_env[w] = ("lv", w, lid)
        body_env["@loopconds"] = len(body_env.get("@conds", []))
        body_env["@absloop"] = body_env.get("@absloop", 0) + 1
        if el is not None and isinstance(st, ast.For):
            self.assign(st.target, el, body_env, fi)
            body_env["@looptargets"] = tuple(n_.id for n_ in ast.walk(st.target)
                                             if isinstance(n_, ast.Name))
        if isinstance(st, ast.While):
            c = self.expr(st.test, body_env, fi)
            self._refine(c, True, body_env)
        body_env.pop("@jumped", None)
        nrets = len(rets)
        self.block(st.body, body_env, fi, rets)
        # values returned/yielded from inside the body saw the loop-carried
        # variables as they were at the start of an iteration
        for i in range(nrets, len(rets)):
            kk, vv = rets[i]
            for w, pv in pre.items():
                vv = subst(vv, ("lv", w, lid), pv)
            rets[i] = (kk, vv)
        # environments that left the iteration early (continue) rejoin here
        ends = []
        if body_env.get("@live", True):
            ends.append(body_env)
        for j in body_env.get("@jumped", []):
            ends.append(j)
        if not body_env.get("@live", True) and body_env.get("@loopjump"):
            ends.append(body_env)
        # for ... else: <always raises/returns>: the code after the loop is reached
        # only through `break`
        if st.orelse and isinstance(st.orelse[-1], (ast.Raise, ast.Return)):
            broke = [e for e in ends if e.get("@broke")]
            if broke:
                ends = broke
        keys = set()
        for e in ends:
            keys |= {k for k in e if isinstance(k, str) and not k.startswith("@")}
        for k in keys:
            outs = [e.get(k, BOT) for e in ends]
            if all(o == outs[0] for o in outs):
                out = outs[0]
            elif all(_is_container(o) or o == BOT for o in outs):
                out = BOT
                for o in outs:
                    if o != BOT:
                        out = _join_container(out, o) if out != BOT else o
            else:
                out = phi(*outs)
            if k in pre:
                lv = ("lv", k, lid)
                start = body_env.get("@loopconds", 0)
                ends_info = [(tuple(e.get("@conds", [])[start:]), e.get(k, BOT)) for e in ends]
                env[k] = self._summarise(pre[k], out, lv, k, ends_info)
            else:
                old = env.get(k, BOT)
                if isinstance(out, tuple) and out and out[0] in ("listof", "dictof") \
                        or (isinstance(old, tuple) and old and old[0] == "list"
                            and isinstance(out, tuple) and out and out[0] in ("list", "listof")):
                    env[k] = _join_container(old, out)
                elif k in env and old != out:
                    env[k] = phi(old, out) if old != BOT else out
                else:
                    env[k] = out
        env["@live"] = True
        env.pop("@loopjump", None)
        if not env.get("@absloop"):
            env.pop("@absloop", None)

    @staticmethod
    def _by_exclusion(conds):
        """`startswith(x, (A, B, C))` holds, `startswith(x, A)` and
        `startswith(x, B)` do not: the item was selected as `startswith(x, C)`.
        Returns that condition, or None when the conditions do not single out
        one prefix."""
        for c, truth in conds:
            if not (truth and isinstance(c, tuple) and len(c) == 4 and c[0] == "call"
                    and c[1] == "startswith" and isinstance(c[3], tuple)
                    and c[3] and c[3][0] == "tuple"):
                continue
            left = [p for p in c[3][1:]]
            if not all(isinstance(p, tuple) and p and p[0] == "const" for p in left):
                continue
            for d, t2 in conds:
                if not t2 and isinstance(d, tuple) and len(d) == 4 and d[0] == "call" \
                        and d[1] == "startswith" and d[2] == c[2] and d[3] in left:
                    left.remove(d[3])
            if len(left) == 1:
                return (("call", "startswith", c[2], left[0]), True)
        return None

    def _summarise(self, pre, out, lv, name, ends_info=None):
        """Loop-carried scalar: recognise accumulation."""
        has = lambda t: contains(t, lambda x: x == lv)  # noqa: E731
        if not has(out):
            return phi(pre, out)
        if out == lv:
            return pre
        acc = self._as_accum(out, lv)
        if acc is not None:
            parts = []
            for e, g in acc:
                parts.append(("loopsum", e, g))
            res = pre
            for p in parts:
                res = ("bin", "+", res, p)
            return res
        # alternatives: some keep lv, some replace it (x = f(line) under a test
        # that selects the line): keep the selecting conditions
        alts = alternatives(out)
        if all((a == lv) or not has(a) for a in alts):
            sel = []

            def walk(t, conds):
                if isinstance(t, tuple) and t and t[0] == "gphi":
                    walk(t[2], conds + ((t[1], True),))
                    walk(t[3], conds + ((t[1], False),))
                elif isinstance(t, tuple) and t and t[0] == "phi":
                    for x in t[1:]:
                        walk(x, conds)
                elif isinstance(t, tuple) and t and t[0] == "when" and not has(t[2]):
                    walk(t[2], conds + tuple(t[1]))
                elif t != lv:
                    pos = tuple(c for c in conds if c[1])
                    if not pos and path:
                        # selected by exclusion: the path to this end says which
                        # items are looked at, the failed tests which remain
                        d = self._by_exclusion(tuple(path) + conds)
                        if d is not None:
                            pos = (d,)
                    sel.append(("when", pos, t) if pos else t)
            path = ()
            if ends_info and any(c for c, _ in ends_info):
                for path, v in ends_info:
                    walk(v, ())
                path = ()
            else:
                walk(out, ())
            return phi(pre, *sel)
        return ("loopdep", name, subst(out, lv, ("prev", name)), pre)

    def _as_accum(self, out, lv, guard=None):
        """out = lv + e  /  gphi(c, lv + e, lv)  ->  [(e, guard)]"""
        if out == lv:
            return []
        if isinstance(out, tuple) and out[0] == "bin" and out[1] == "+":
            if out[2] == lv and not contains(out[3], lambda x: x == lv):
                return [(out[3], guard)]
            if out[3] == lv and not contains(out[2], lambda x: x == lv):
                return [(out[2], guard)]
            inner = self._as_accum(out[2], lv, guard)
            if inner is not None and not contains(out[3], lambda x: x == lv):
                return inner + [(out[3], guard)]
        if isinstance(out, tuple) and out[0] == "gphi":
            a = self._as_accum(out[2], lv, ("and", guard, out[1]) if guard else out[1])
            b = self._as_accum(out[3], lv, ("and", guard, ("not", out[1])) if guard
                               else ("not", out[1]))
            if a is not None and b is not None:
                return a + b
        if isinstance(out, tuple) and out[0] == "phi":
            res = []
            for x in out[1:]:
                r = self._as_accum(x, lv, guard)
                if r is None:
                    return None
                res += r
            return res
        return None

    # --------------------------------------------------------------------- try
    def _try(self, st, env, fi, rets):
        pre = env.copy()
        benv = env.copy()
        self.block(st.body, benv, fi, rets)
        if benv.get("@live", True):
            self.block(st.orelse, benv, fi, rets)
        branches = [(benv, ("ok",))]
        for h in st.handlers:
            henv = pre.copy()
            # the handler may run after part of the body: join what the body bound
            for k, v in benv.items():
                if isinstance(k, str) and not k.startswith("@") and k in pre and pre[k] != v:
                    if isinstance(v, tuple) and v and v[0] in ("listof", "dictof"):
                        henv[k] = _join_container(pre[k], v)
            if h.name:
                henv[h.name] = ("exc", norm_stmt(h.type) if h.type else "BaseException")
            henv["@live"] = True
            henv.pop("@raised", None)
            self.block(h.body, henv, fi, rets)
            branches.append((henv, ("exc", norm_stmt(h.type) if h.type else "*")))
        self._merge(env, branches)
        if st.finalbody:
            self.block(st.finalbody, env, fi, rets)

    # ------------------------------------------------------------------ assign
    def assign(self, t, v, env, fi):
        if isinstance(t, ast.Name):
            if t.id in self.force:
                v = self.force[t.id]
            env[t.id] = v
            return
        if isinstance(t, (ast.Tuple, ast.List)):
            n = len(t.elts)
            stars = [i for i, e in enumerate(t.elts) if isinstance(e, ast.Starred)]
            if len(stars) == 1:
                vs = self._unpack_star(v, n, stars[0], env, fi)
                if vs is not None:
                    for e, x in zip(t.elts, vs):
                        self.assign(e.value if isinstance(e, ast.Starred) else e, x, env, fi)
                    return
            vs = self._unpack(v, n, env, fi)
            for e, x in zip(t.elts, vs):
                if isinstance(e, ast.Starred):
                    self.assign(e.value, top("starred target"), env, fi)
                else:
                    self.assign(e, x, env, fi)
            return
        if isinstance(t, ast.Subscript):
            base = t.value
            key = self.expr(t.slice, env, fi)
            if isinstance(base, ast.Name) and base.id in env:
                cur = env[base.id]
                if env.get("@absloop"):
                    v = self._guarded(env, v)
                env[base.id] = self._store(cur, key, v)
            elif isinstance(base, ast.Subscript) or isinstance(base, ast.Attribute):
                d = dotted(base) or norm_stmt(base)
                env[("@store", d)] = phi(env.get(("@store", d), BOT), ("tuple", key, v))
            return
        if isinstance(t, ast.Attribute):
            env[("@attr", norm_stmt(t))] = v
            return

    def _store(self, cur, key, v):
        if isinstance(cur, tuple) and cur and cur[0] == "dict" and key[0] == "const":
            items = [(k, x) for k, x in cur[1] if k != key] + [(key, v)]
            return ("dict", tuple(items))
        if isinstance(cur, tuple) and cur and cur[0] == "dict" and not cur[1]:
            return ("dictof", key, v)
        if isinstance(cur, tuple) and cur and cur[0] == "dict":
            ks = phi(*[k for k, _ in cur[1]], key)
            vs = phi(*[x for _, x in cur[1]], v)
            return ("dictof", ks, vs)
        if isinstance(cur, tuple) and cur and cur[0] == "dictof":
            return ("dictof", phi(cur[1], key), phi(cur[2], v))
        if isinstance(cur, tuple) and cur and cur[0] == "call" and cur[1] in (
                "collections.defaultdict", "defaultdict"):
            return ("dictof", key, v)
        return ("dictof", key, v)

    def _unpack_star(self, v, n, s, env, fi):
        """`a, b, *rest, z = v` with the star at position s of n targets: the
        values per target (the starred one a list term), when every alternative
        of v has a known length; None otherwise."""
        after = n - 1 - s
        k = v[0] if isinstance(v, tuple) and v else None
        if k in ("tuple", "list") or k == "nt":
            items = list(v[1:]) if k != "nt" else list(v[3])
            if len(items) < n - 1 or any(isinstance(x, tuple) and x and x[0] == "starred"
                                         for x in items):
                return None
            mid = items[s:len(items) - after]
            return items[:s] + [("list",) + tuple(mid)] + items[len(items) - after:]
        if k in ("phi", "gphi"):
            alts = v[1:] if k == "phi" else v[2:]
            cols = [self._unpack_star(x, n, s, env, fi) for x in alts]
            if any(c is None for c in cols) or len({len(c[s]) for c in cols}) != 1:
                return None
            out = []
            for i in range(n):
                if i == s:
                    w = len(cols[0][s]) - 1
                    out.append(("list",) + tuple(
                        self._join2(k, v, [c[s][1 + j] for c in cols]) for j in range(w)))
                else:
                    out.append(self._join2(k, v, [c[i] for c in cols]))
            return out
        if k == "when":
            r = self._unpack_star(v[2], n, s, env, fi)
            return None if r is None else [
                ("list",) + tuple(("when", v[1], y) for y in x[1:]) if i == s
                else ("when", v[1], x) for i, x in enumerate(r)]
        return None

    @staticmethod
    def _join2(k, v, xs):
        if all(x == xs[0] for x in xs):
            return xs[0]
        if k == "gphi":
            return ("gphi", v[1], xs[0], xs[1])
        return phi(*xs)

    def _unpack(self, v, n, env, fi):
        k = v[0] if isinstance(v, tuple) and v else None
        if k in ("tuple", "list") and len(v) - 1 == n:
            return list(v[1:])
        if k == "nt" and len(v[3]) == n:
            return list(v[3])
        if k in ("gphi",):
            a = self._unpack(v[2], n, env, fi)
            b = self._unpack(v[3], n, env, fi)
            return [("gphi", v[1], x, y) if x != y else x for x, y in zip(a, b)]
        if k == "phi":
            cols = [self._unpack(x, n, env, fi) for x in v[1:]]
            return [phi(*[c[i] for c in cols]) for i in range(n)]
        if k == "bin" and v[1] == "+" and isinstance(v[2], tuple) and isinstance(v[3], tuple) \
                and v[3][0] in ("list", "tuple"):
            # hfields + ['']  (padding a short split)
            base = v[2]
            return [phi(self.index(base, const(i)), v[3][1]) if i >= n - (len(v[3]) - 1)
                    else self.index(base, const(i)) for i in range(n)]
        return [self.index(v, const(i)) for i in range(n)]

    # ------------------------------------------------------------- expressions
    def expr(self, e, env, fi):
        if e is None:
            return NONE
        m = getattr(self, "e_" + type(e).__name__, None)
        if m is None:
            self.unsupported.append((fi.fq, f"expression {type(e).__name__}"))
            return top(type(e).__name__)
        return m(e, env, fi)

    def e_Constant(self, e, env, fi):
        return const(e.value)

    def e_Name(self, e, env, fi):
        if e.id in env:
            return env[e.id]
        if e.id in self.consts:
            return self.consts[e.id]
        return self.global_name(e.id, fi)

    def global_name(self, name, fi):
        from .pyrepo import PLATFORM_MODULES
        mod = self.repo.mod(fi.module)
        if name in ("True", "False", "None"):
            return const({"True": True, "False": False, "None": None}[name])
        if name == "_psplatform" and fi.module == "psutil":
            return ("module", PLATFORM_MODULES[self.plat])
        imp0 = mod.imports.get(name)
        if imp0 and imp0[0] == "module" and imp0[1].startswith("psutil.") \
                and imp0[1].split(".", 1)[1] in self.repo.modules:
            return ("module", imp0[1].split(".", 1)[1])
        from .pyrepo import platform_flags
        fl = platform_flags(self.plat)
        if name in fl and (name in mod.imports or fi.module == "_common"):
            return const(fl[name])
        # enclosing closures are handled by env; module level:
        if name in mod.assigns:
            vals = mod.assigns[name]
            if len(vals) == 1 and isinstance(vals[0], ast.Constant) \
                    and isinstance(vals[0].value, (str, bytes, type(None))) \
                    and (fi.module, name) not in self.unstable:
                return const(vals[0].value)
            # a compiled pattern kept in a module-level constant is the pattern
            if len(vals) == 1 and isinstance(vals[0], ast.Call) \
                    and dotted(vals[0].func) in ("re.compile", "_re.compile") \
                    and (fi.module, name) not in self.unstable:
                try:
                    return self.expr(vals[0], Env(), fi)
                except Exception:  # noqa: BLE001
                    pass
            return ("glob", f"{fi.module}.{name}")
        imp = mod.imports.get(name)
        if imp and imp[0] == "name" and imp[1].startswith("psutil."):
            short = imp[1].split(".", 1)[1]
            if short in self.repo.modules:
                m2 = self.repo.mod(short)
                if imp[2] in m2.assigns:
                    return ("glob", f"{short}.{imp[2]}")
                return ("ref", f"{short}:{imp[2]}")
        if name in mod.funcs or name in mod.classes:
            return ("ref", f"{fi.module}:{name}")
        if imp:
            return ("ext", imp[1] + ("." + imp[2] if imp[0] == "name" else ""))
        if name in PURE_BUILTINS or name in dir(__builtins__) if isinstance(__builtins__, dict) \
                else hasattr(__builtins__, name):
            return ("ext", f"builtins.{name}")
        return ("free", name)

    def e_Attribute(self, e, env, fi):
        d = dotted(e)
        if d in OS_CONSTS:
            return const(OS_CONSTS[d])
        if d and ("@attr", d) in env:
            return env[("@attr", d)]
        base = self.expr(e.value, env, fi)
        k = base[0] if isinstance(base, tuple) and base else None
        if k == "self":
            if e.attr == "pid":
                return ("sym", "pid")
            if e.attr == "_procfs_path":
                return ("sym", "procfs")
            return ("selfattr", e.attr)
        if k == "nt":
            if e.attr in base[2]:
                return base[3][base[2].index(e.attr)]
            if e.attr == "_fields":
                return ("tuple",) + tuple(const(f) for f in base[2])
            return top(f"nt has no field {e.attr}")
        if k in ("gphi",):
            a = self._attr_of(base[2], e.attr)
            b = self._attr_of(base[3], e.attr)
            return ("gphi", base[1], a, b) if a != b else a
        if k == "phi":
            return phi(*[self._attr_of(x, e.attr) for x in base[1:]])
        if k in ("glob", "ref") and e.attr == "_fields":
            mn, n = base[1].replace(":", ".").split(".", 1)
            if (mn, n) in self.namedtuples:
                return ("tuple",) + tuple(const(f) for f in self.namedtuples[(mn, n)])
        if k == "ext":
            return ("ext", f"{base[1]}.{e.attr}")
        if k == "module":
            mn = base[1]
            m2 = self.repo.mod(mn)
            if (mn, e.attr) in self.namedtuples or e.attr in m2.funcs or e.attr in m2.classes:
                return ("ref", f"{mn}:{e.attr}")
            if e.attr in m2.assigns:
                vals = m2.assigns[e.attr]
                if len(vals) == 1 and isinstance(vals[0], ast.Constant) \
                        and (mn, e.attr) not in self.unstable:
                    return const(vals[0].value)
                return ("glob", f"{mn}.{e.attr}")
            imp = m2.imports.get(e.attr)
            if imp and imp[0] == "name" and imp[1].startswith("psutil."):
                short = imp[1].split(".", 1)[1]
                if short in self.repo.modules:
                    return self.e_Attribute_of_module(short, imp[2])
                return ("native", f"{e.attr}")
            if imp and imp[0] == "module":
                return ("ext", imp[1])
            return ("ext", f"psutil.{mn}.{e.attr}")
        if k == "ref":
            # module-qualified reference: _common.sdiskpart / _psplatform.scputimes
            return ("ref", f"{base[1]}.{e.attr}")
        if k is None or k == "free":
            pass
        return ("attr", base, e.attr)

    def e_Attribute_of_module(self, mn, attr):
        m2 = self.repo.mod(mn)
        if (mn, attr) in self.namedtuples or attr in m2.funcs or attr in m2.classes:
            return ("ref", f"{mn}:{attr}")
        if attr in m2.assigns:
            return ("glob", f"{mn}.{attr}")
        return ("ext", f"psutil.{mn}.{attr}")

    def _attr_of(self, t, attr):
        if isinstance(t, tuple) and t and t[0] == "nt" and attr in t[2]:
            return t[3][t[2].index(attr)]
        return ("attr", t, attr)

    def e_JoinedStr(self, e, env, fi):
        out = ""
        for v in e.values:
            if isinstance(v, ast.Constant):
                out += str(v.value)
            else:
                t = self.expr(v.value, env, fi)
                if isinstance(t, tuple) and t and t[0] in ("tmpl",):
                    out += t[1]          # a path built from a path: splice, do not nest
                elif isinstance(t, tuple) and t and t[0] == "const" and isinstance(t[1], str):
                    out += t[1]
                else:
                    out += "{" + self._tmpl_piece(t, v.value) + "}"
        return ("tmpl", out)

    def _tmpl_piece(self, t, node):
        if t == ("sym", "pid") or (t[0] == "param" and t[1] in ("pid", "tid")):
            return "pid"
        if t == ("sym", "procfs"):
            return "procfs"
        if t[0] == "call" and str(t[1]).endswith("get_procfs_path"):
            return "procfs"
        if t[0] == "param" and t[1] == "procfs_path":
            return "procfs"
        if t[0] == "const":
            return str(t[1])
        if t[0] == "tmpl":
            return t[1]
        d = dotted(node)
        return d or "?"

    def e_Tuple(self, e, env, fi):
        return self._seq("tuple", e, env, fi)

    def e_List(self, e, env, fi):
        if not e.elts:
            return ("list",)
        return self._seq("list", e, env, fi)

    def _seq(self, kind, e, env, fi):
        out = []
        for x in e.elts:
            if isinstance(x, ast.Starred):
                v = self.expr(x.value, env, fi)
                if v[0] in ("tuple", "list"):
                    out += list(v[1:])
                elif v[0] == "nt":
                    out += list(v[3])
                else:
                    return ("concat", kind, tuple(out), v)
            else:
                out.append(self.expr(x, env, fi))
        return (kind,) + tuple(out)

    def e_Set(self, e, env, fi):
        return ("set",) + tuple(self.expr(x, env, fi) for x in e.elts)

    def e_Dict(self, e, env, fi):
        items = []
        for k, v in zip(e.keys, e.values):
            if k is None:
                return top("dict unpack")
            items.append((self.expr(k, env, fi), self.expr(v, env, fi)))
        return ("dict", tuple(items))

    def e_UnaryOp(self, e, env, fi):
        v = self.expr(e.operand, env, fi)
        if isinstance(e.op, ast.Not):
            if v[0] == "const":
                return const(not v[1])
            return ("not", v)
        if isinstance(e.op, ast.USub):
            if v[0] == "const" and isinstance(v[1], (int, float)):
                return const(-v[1])
            return ("neg", v)
        return ("unary", type(e.op).__name__, v)

    def e_BinOp(self, e, env, fi):
        return self.binop(e.op, self.expr(e.left, env, fi), self.expr(e.right, env, fi))

    def binop(self, op, a, b):
        sym = {ast.Add: "+", ast.Sub: "-", ast.Mult: "*", ast.Div: "/",
               ast.FloorDiv: "//", ast.Mod: "%", ast.BitAnd: "&", ast.BitOr: "|",
               ast.LShift: "<<", ast.RShift: ">>", ast.Pow: "**", ast.BitXor: "^"}.get(type(op))
        if sym is None:
            return top("binop")
        if a[0] == "const" and b[0] == "const" and isinstance(a[1], (int, float)) \
                and isinstance(b[1], (int, float)) and not isinstance(a[1], bool):
            try:
                return const(eval(f"a{sym}b", {"a": a[1], "b": b[1]}))  # noqa: S307
            except Exception:  # noqa: BLE001
                pass
        if sym == "+" and a[0] == "const" and b[0] == "const" and type(a[1]) is type(b[1]) \
                and isinstance(a[1], (str, bytes)):
            return const(a[1] + b[1])
        if sym == "+" and a[0] in ("tmpl", "const") and b[0] in ("tmpl", "const") \
                and isinstance(a[1], str) and isinstance(b[1], str):
            return ("tmpl", a[1] + b[1])
        if sym == "+" and (a[0] == "tmpl" or b[0] == "tmpl"
                           or (b[0] == "const" and isinstance(b[1], str) and a[0] != "const")
                           or (a[0] == "const" and isinstance(a[1], str) and b[0] != "const")):
            return ("tmpl", _piece(a) + _piece(b))
        if sym == "+" and a[0] in ("tuple", "list") and b[0] in ("tuple", "list"):
            return (a[0],) + tuple(a[1:]) + tuple(b[1:])
        if sym == "+" and a[0] == "nt" and b[0] in ("tuple", "list"):
            return ("tuple",) + tuple(a[3]) + tuple(b[1:])
        return ("bin", sym, a, b)

    def e_BoolOp(self, e, env, fi):
        vals = [self.expr(v, env, fi) for v in e.values]
        k = "and" if isinstance(e.op, ast.And) else "or"
        if k == "and":
            kept = []
            for v in vals:
                t = self._truth(v)
                if t is False:
                    return v if not kept else const(False)
                if t is None:
                    kept.append(v)
            if not kept:
                return vals[-1]
            if len(kept) == 1:
                return kept[0]
            return ("and",) + tuple(kept)
        # value semantics of `x or y`
        if k == "or" and len(vals) == 2:
            t = self._truth(vals[0])
            if t is True:
                return vals[0]
            if t is False:
                return vals[1]
            return ("or", vals[0], vals[1])
        if k == "or":
            # n-ary: the first truthy operand, skipping the ones known to be false
            kept = []
            for v in vals:
                t = self._truth(v)
                if t is True:
                    return v if not kept else ("or",) + tuple(kept) + (v,)
                if t is None:
                    kept.append(v)
            if not kept:
                return vals[-1]
            if len(kept) == 1:
                return kept[0]
            return ("or",) + tuple(kept)
        return (k,) + tuple(vals)

    def e_Compare(self, e, env, fi):
        l = self.expr(e.left, env, fi)
        parts = []
        for op, c in zip(e.ops, e.comparators):
            r = self.expr(c, env, fi)
            sym = {ast.Eq: "==", ast.NotEq: "!=", ast.Lt: "<", ast.LtE: "<=", ast.Gt: ">",
                   ast.GtE: ">=", ast.Is: "is", ast.IsNot: "isnot", ast.In: "in",
                   ast.NotIn: "notin"}[type(op)]
            if l[0] == "const" and r[0] == "const" and sym in ("==", "!=", "<", "<=", ">", ">=") \
                    and type(l[1]) is type(r[1]):
                try:
                    parts.append(const(eval(f"a{sym}b", {"a": l[1], "b": r[1]})))  # noqa: S307
                    l = r
                    continue
                except Exception:  # noqa: BLE001
                    pass
            if sym in ("is", "isnot") and r == NONE and l[0] in ("const",):
                parts.append(const((l[1] is None) == (sym == "is")))
            elif sym in ("is", "isnot") and r == NONE and l[0] in (
                    "bin", "call", "idx", "tuple", "list", "nt", "tmpl", "listof", "dict",
                    "dictof", "file", "line", "split"):
                parts.append(const(sym == "isnot"))
            else:
                parts.append(("cmp", sym, l, r))
            l = r
        return parts[0] if len(parts) == 1 else ("and",) + tuple(parts)

    def e_IfExp(self, e, env, fi):
        c = self.expr(e.test, env, fi)
        t = self._truth(c)
        if t is True:
            return self.expr(e.body, env, fi)
        if t is False:
            return self.expr(e.orelse, env, fi)
        a, b = self.expr(e.body, env, fi), self.expr(e.orelse, env, fi)
        return a if a == b else ("gphi", c, a, b)

    def e_Subscript(self, e, env, fi):
        base = self.expr(e.value, env, fi)
        if isinstance(e.slice, ast.Slice):
            lo = self.expr(e.slice.lower, env, fi) if e.slice.lower else NONE
            hi = self.expr(e.slice.upper, env, fi) if e.slice.upper else NONE
            step = self.expr(e.slice.step, env, fi) if e.slice.step else NONE
            return self.slice(base, lo, hi, step)
        key = self.expr(e.slice, env, fi)
        return self.index(base, key)

    def slice(self, base, lo, hi, step=NONE):
        k = base[0] if isinstance(base, tuple) and base else None
        if k in ("tuple", "list") and lo[0] == "const" and hi[0] == "const" and step == NONE:
            return (k,) + tuple(list(base[1:])[lo[1]:hi[1]])
        if k == "nt" and lo[0] == "const" and hi[0] == "const" and step == NONE:
            return ("tuple",) + tuple(list(base[3])[lo[1]:hi[1]])
        if k == "slice" and base[2][0] == "const" and lo[0] == "const" and step == NONE \
                and base[4] == NONE and (base[2][1] or 0) >= 0 and (lo[1] or 0) >= 0:
            nlo = (base[2][1] or 0) + (lo[1] or 0)
            nhi = hi
            if hi[0] == "const" and hi[1] is not None and hi[1] >= 0:
                nhi = const(hi[1] + (base[2][1] or 0))
            if base[3] == NONE:
                return ("slice", base[1], const(nlo), nhi, NONE)
        return ("slice", base, lo, hi, step)

    def index(self, base, key):
        k = base[0] if isinstance(base, tuple) and base else None
        if k == "when":
            # a path annotation (which branch selected the value): indexing
            # looks through it and keeps it
            return ("when", base[1], self.index(base[2], key))
        if k in ("tuple", "list") and key[0] == "const" and isinstance(key[1], int):
            try:
                return base[1:][key[1]]
            except IndexError:
                return top("index out of literal range")
        if k == "nt" and key[0] == "const" and isinstance(key[1], int):
            try:
                return base[3][key[1]]
            except IndexError:
                return top("nt index")
        if k == "dict" and key[0] == "const":
            for kk, vv in base[1]:
                if kk == key:
                    return vv
            return ("keyerror", key)
        if k == "dict":
            return phi(*[vv for _, vv in base[1]]) if base[1] else top("empty dict")
        if k == "dictof":
            return ("dval", base, key)
        if k == "slice" and key[0] == "const" and isinstance(key[1], int) and key[1] >= 0 \
                and base[2][0] == "const" and (base[2][1] or 0) >= 0 and base[4] == NONE:
            return self.index(base[1], const((base[2][1] or 0) + key[1]))
        if k == "zipT":
            alts = [self.index(x, key) for x in alternatives(base[1])
                    if x[0] in ("tuple", "list", "nt")]
            return ("col", phi(*alts)) if alts else top("zipT of non-tuples")
        if k == "map":
            return self.apply(base[1], [self.index(base[2], key)])
        if k == "comp":
            return self._comp_at(base, key)
        if k == "gphi":
            a, b = self.index(base[2], key), self.index(base[3], key)
            return a if a == b else ("gphi", base[1], a, b)
        if k == "phi":
            return phi(*[self.index(x, key) for x in base[1:]])
        if k == "listof":
            return base[1]
        return ("idx", base, key[1] if key[0] == "const" else key)

    def e_ListComp(self, e, env, fi):
        return self._comp(e, env, fi, "list")

    def e_GeneratorExp(self, e, env, fi):
        return self._comp(e, env, fi, "gen")

    def e_SetComp(self, e, env, fi):
        return self._comp(e, env, fi, "set")

    def e_DictComp(self, e, env, fi):
        return top("dict comprehension")

    def _comp(self, e, env, fi, kind):
        if len(e.generators) != 1:
            return top("nested comprehension")
        g = e.generators[0]
        it = self.expr(g.iter, env, fi)
        return ("comp", Closure(kind, e, env.copy(), self, fi), it)

    def _comp_at(self, comp, key):
        """Element `key` of a comprehension over an indexable source (no filter)."""
        clo, it = comp[1], comp[2]
        e = clo.node
        g = e.generators[0]
        if g.ifs:
            return self._comp_elem(comp)
        env = clo.env.copy()
        self.assign(g.target, self.index(it, key), env, clo.fi)
        return self.expr(e.elt, env, clo.fi)

    def _comp_elem(self, comp):
        clo, it = comp[1], comp[2]
        e = clo.node
        g = e.generators[0]
        env = clo.env.copy()
        el, unroll = self._iter_elem(it, env, clo.fi)
        if unroll is not None:
            outs = []
            for u in unroll:
                ev = env.copy()
                self.assign(g.target, u, ev, clo.fi)
                outs.append(self.expr(e.elt, ev, clo.fi))
            return ("unrolled", tuple(outs))
        self.assign(g.target, el, env, clo.fi)
        v = self.expr(e.elt, env, clo.fi)
        conds = [self.expr(c, env, clo.fi) for c in g.ifs]
        if conds:
            return ("filtered", v, tuple(conds))
        return v

    def comp_value(self, comp):
        """Materialise a comprehension as tuple (if unrolled) or listof."""
        v = self._comp_elem(comp)
        if isinstance(v, tuple) and v and v[0] == "unrolled":
            return ("list",) + v[1]
        return ("listof", v)

    def e_Lambda(self, e, env, fi):
        return ("closure", Closure("lambda", e, env.copy(), self, fi))

    def e_Starred(self, e, env, fi):
        return ("star", self.expr(e.value, env, fi))

    def e_Yield(self, e, env, fi):
        return NONE

    def e_NamedExpr(self, e, env, fi):
        v = self.expr(e.value, env, fi)
        self.assign(e.target, v, env, fi)
        return v

    # -------------------------------------------------------------------- calls
    def apply(self, f, args, kwargs=None):
        """Apply a function *term* to argument terms."""
        kwargs = kwargs or {}
        k = f[0] if isinstance(f, tuple) and f else None
        if k == "ext":
            name = f[1].replace("builtins.", "")
            return self.builtin(name, args, kwargs)
        if k == "closure":
            clo = f[1]
            if clo.kind == "lambda":
                env = clo.env.copy()
                for p, a in zip(clo.node.args.args, args):
                    env[p.arg] = a
                return self.expr(clo.node.body, env, clo.fi)
            if clo.kind == "def":
                return self._call_closure(clo, args, kwargs)
        if k == "ref":
            mn, q = f[1].split(":", 1)
            q = q.replace(".", ".")
            if (mn, q) in self.namedtuples:
                return self.make_nt((mn, q), args, kwargs)
            fs = self.repo.funcs(mn, q)
            fs = [x for x in fs if self.A.defined(x, self.plat) is not False]
            if fs:
                outs = [self.call_function(x, args, kwargs) for x in fs[:3]]
                return phi(*outs)
            if q in self.repo.mod(mn).classes:
                return ("instance", f"{mn}:{q}", tuple(args))
            return ("call", f[1], *args)
        if k == "glob":
            mn, n = f[1].split(".", 1)
            if (mn, n) in self.namedtuples:
                return self.make_nt((mn, n), args, kwargs)
            if "timer" in n:
                self.inst += 1
                return ("sample", f[1], self.inst)
            # alias  disk_usage = _psposix.disk_usage
            m = self.repo.mod(mn)
            for v in m.assigns.get(n, []):
                if isinstance(v, (ast.Name, ast.Attribute)):
                    fake = self.repo._outer(next(iter(self.repo.all_funcs(mn))))
                    return self.apply(self.expr(v, Env(), fake), args, kwargs)
            return ("call", f[1], *args)
        if k == "gphi":
            return ("gphi", f[1], self.apply(f[2], args, kwargs), self.apply(f[3], args, kwargs))
        if k == "phi":
            return phi(*[self.apply(x, args, kwargs) for x in f[1:]])
        if k == "native":
            return ("native", f[1], *args)
        return ("call", repr(f), *args)

    def _call_closure(self, clo, args, kwargs):
        if clo.fi is not None and getattr(clo.fi, "fq", None) in self.opaque \
                and clo.fi.node is clo.node:
            self.inst += 1
            return ("sample", clo.fi.fq, self.inst, tuple(args))
        if self.depth >= self.max_depth:
            return top("closure depth")
        node = clo.node
        env = clo.env      # shares the enclosing environment (reads + container joins)
        sub = env.copy()
        names = [p.arg for p in node.args.args]
        defaults = dict(zip(names[len(names) - len(node.args.defaults):], node.args.defaults))
        for i, n in enumerate(names):
            if i < len(args):
                sub[n] = args[i]
            elif n in kwargs:
                sub[n] = kwargs[n]
            elif n in defaults:
                sub[n] = self.expr(defaults[n], env, clo.fi)
            else:
                sub[n] = ("param", n)
        if node.args.vararg:
            sub[node.args.vararg.arg] = ("tuple",) + tuple(args[len(names):])
        sub["@live"] = True
        sub.pop("@jumped", None)
        rets = []
        self.depth += 1
        try:
            self.block(node.body, sub, clo.fi, rets)
        finally:
            self.depth -= 1
        is_gen = any(isinstance(n, (ast.Yield, ast.YieldFrom)) for n in _walk_own(node))
        # container side effects on enclosing variables
        for k, v in sub.items():
            if isinstance(k, str) and not k.startswith("@") and k in env and k not in names:
                if isinstance(v, tuple) and v and v[0] in ("listof", "dictof"):
                    env[k] = _join_container(env[k], v)
        if is_gen:
            ys = [r for kk, r in rets if kk == "yield"]
            return ("listof", phi(*ys)) if ys else ("listof", BOT)
        rs = [r for kk, r in rets if kk == "return"]
        if sub.get("@live", True):
            rs.append(NONE)
        return phi(*rs) if rs else NONE

    def make_nt(self, key, args, kwargs):
        fields = self.namedtuples[key]
        flat = []
        for a in args:
            if isinstance(a, tuple) and a and a[0] == "star":
                inner = a[1]
                while inner[0] == "when":
                    inner = inner[2]
                if inner[0] == "comp" and not inner[1].node.generators[0].ifs \
                        and inner[2][0] not in ("tuple", "list", "nt"):
                    n = len(fields) - len(flat)
                    flat += [self._comp_at(inner, const(i)) for i in range(n)]
                    continue
                if inner[0] == "comp":
                    inner = self.comp_value(inner)
                if inner[0] in ("tuple", "list"):
                    flat += list(inner[1:])
                elif inner[0] == "nt":
                    flat += list(inner[3])
                elif inner[0] == "bin" and inner[1] == "+":
                    return ("nt_star", key, inner)
                elif inner[0] in ("listof", "slice", "split", "map", "idx", "dval",
                                  "call", "param", "elem", "phi", "gphi"):
                    # positional expansion of an indexable: field i <- element i
                    n = len(fields) - len(flat)
                    flat += [self.index(inner, const(i)) for i in range(n)]
                else:
                    return ("nt_star", key, inner)
            else:
                flat.append(a)
        vals = list(flat)
        for f in fields[len(vals):]:
            if f in kwargs:
                vals.append(kwargs[f])
        if len(vals) != len(fields):
            return ("nt_arity", key, len(vals), len(fields))
        return ("nt", f"{key[0]}.{key[1]}", tuple(fields), tuple(vals))

    def e_Call(self, e, env, fi):
        return self._call(e, env, fi)

    def _call_stmt(self, c, env, fi):
        """Call used as a statement: container mutations."""
        f = c.func
        if isinstance(f, ast.Attribute) and isinstance(f.value, ast.Name) and f.value.id in env:
            name = f.value.id
            cur = env[name]
            if f.attr == "append" and len(c.args) == 1:
                v = self.expr(c.args[0], env, fi)
                if env.get("@absloop"):
                    v = self._guarded(env, v)
                if cur and cur[0] == "list" and not env.get("@absloop"):
                    env[name] = cur + (v,)
                else:
                    env[name] = _join_container(cur, ("listof", v))
                return
            if f.attr in ("add",) and len(c.args) == 1:
                v = self.expr(c.args[0], env, fi)
                env[name] = _join_container(cur if cur[0] == "listof" else ("listof", BOT),
                                            ("listof", v))
                return
            if f.attr == "extend" and len(c.args) == 1:
                v = self.expr(c.args[0], env, fi)
                el = self._iter_elem(v, env, fi)[0]
                env[name] = _join_container(cur, ("listof", el if el is not None else top()))
                return
            if f.attr == "sort":
                return
            if f.attr == "readline" and cur[0] == "fobj":
                env[("@rl", cur)] = env.get(("@rl", cur), 0) + 1
                return
        if isinstance(f, ast.Attribute) and f.attr == "append" and len(c.args) == 1:
            # d[k].append(v)
            base = f.value
            if isinstance(base, ast.Subscript) and isinstance(base.value, ast.Name) \
                    and base.value.id in env:
                key = self.expr(base.slice, env, fi)
                v = self.expr(c.args[0], env, fi)
                cur = env[base.value.id]
                old = cur[2] if cur[0] == "dictof" else ("listof", BOT)
                newv = _join_container(old if old[0] == "listof" else ("listof", BOT),
                                       ("listof", v))
                env[base.value.id] = ("dictof", phi(cur[1], key) if cur[0] == "dictof" else key,
                                      newv)
                return
        self._call(c, env, fi)

    def _call(self, c, env, fi):
        f = c.func
        args = []
        for a in c.args:
            if isinstance(a, ast.Starred):
                args.append(("star", self.expr(a.value, env, fi)))
            else:
                args.append(self.expr(a, env, fi))
        kwargs = {k.arg: self.expr(k.value, env, fi) for k in c.keywords if k.arg}
        # ---- method calls on terms
        if isinstance(f, ast.Attribute):
            recv_node = f.value
            d = dotted(f)
            if d and d.count(".") == 1 and d.split(".")[0] not in env:
                key, fields = self.nt_lookup(fi, d)
                if key:
                    return self.make_nt(key, args, kwargs)
            if isinstance(recv_node, ast.Name) and recv_node.id not in env:
                gv = self.global_name(recv_node.id, fi)
                if gv[0] == "module":
                    fv = self.expr(f, env, fi)
                    if fv[0] == "ref" and ":" in fv[1]:
                        self.trace_calls.append(fv[1])
                    return self.apply(fv, args, kwargs)
            # resolved repo/native/ext callee first
            tg = self.repo.resolve_call(c, fi, self.plat)
            kinds = {t[0] for t in tg}
            if "func" in kinds and not (isinstance(recv_node, ast.Name) and recv_node.id in env
                                        and env[recv_node.id][0] not in ("self", "instance")):
                fs = [t[1] for t in tg if t[0] == "func"
                      and self.A.defined(t[1], self.plat) is not False]
                if fs:
                    st = None
                    if fs[0].cls is not None:
                        st = self.expr(recv_node, env, fi)
                        if not (isinstance(st, tuple) and st and st[0] in ("self", "instance")):
                            st = ("self", fs[0].module, fs[0].cls)
                    outs = [self.call_function(x, args, kwargs, st) for x in fs[:2]]
                    self.trace_calls.append(fs[0].fq)
                    return phi(*outs)
            if "native" in kinds:
                return ("native", [t[1] for t in tg if t[0] == "native"][0], *args)
            if "ext" in kinds and not (isinstance(recv_node, ast.Name) and recv_node.id in env):
                name = [t[1] for t in tg if t[0] == "ext"][0]
                return self.builtin(name, args, kwargs)
            recv = self.expr(recv_node, env, fi)
            return self.method(recv, f.attr, args, kwargs, env, fi, recv_node)
        if isinstance(f, ast.Name):
            if f.id in env:
                return self.apply(env[f.id], args, kwargs)
            # named tuple?
            key, fields = self.nt_lookup(fi, f.id)
            if key:
                return self.make_nt(key, args, kwargs)
            tg = self.repo.resolve_call(c, fi, self.plat)
            fs = [t[1] for t in tg if t[0] == "func"
                  and self.A.defined(t[1], self.plat) is not False]
            if fs:
                self.trace_calls.append(fs[0].fq)
                outs = [self.call_function(x, args, kwargs) for x in fs[:2]]
                return phi(*outs)
            for t in tg:
                if t[0] == "native":
                    return ("native", t[1], *args)
                if t[0] == "ext":
                    return self.builtin(t[1].replace("builtins.", ""), args, kwargs)
                if t[0] == "unknown":
                    # X = getattr(time, 'monotonic', time.time)
                    vals = self.repo.mod(fi.module).assigns.get(f.id, [])
                    if len(vals) == 1 and isinstance(vals[0], ast.Call) \
                            and dotted(vals[0].func) == "getattr" and len(vals[0].args) >= 2 \
                            and isinstance(vals[0].args[1], ast.Constant):
                        base = dotted(vals[0].args[0])
                        return self.builtin(f"{base}.{vals[0].args[1].value}", args, kwargs)
                if t[0] == "param":
                    if "timer" in t[1] or "sleep" in t[1]:
                        self.inst += 1
                        return ("sample", f"param:{t[1]}", self.inst)
                    return ("call", f"param:{t[1]}", *args)
            return ("call", f.id, *args)
        fv = self.expr(f, env, fi)
        return self.apply(fv, args, kwargs)

    # --------------------------------------------------------- builtin library
    def builtin(self, name, args, kwargs):
        name = name.replace("builtins.", "")
        a = args
        if name in ("int", "float") and a:
            x = a[0]
            if x[0] == "const" and isinstance(x[1], (int, float)) and len(a) == 1:
                return const(int(x[1]) if name == "int" else float(x[1]))
            return ("call", name, *a)
        if name == "len" and a:
            x = a[0]
            if x[0] in ("tuple", "list"):
                return const(len(x) - 1)
            if x[0] == "nt":
                return const(len(x[3]))
            if x[0] == "const" and isinstance(x[1], (str, bytes)):
                return const(len(x[1]))
            return ("call", "len", x)
        if name in ("list", "tuple") and len(a) == 1:
            x = a[0]
            if x[0] == "comp":
                return self.comp_value(x)
            if x[0] in ("tuple", "list"):
                return (name,) + tuple(x[1:])
            if x[0] == "map":
                return x
            return ("call", name, x)
        if name == "zip" and len(a) == 1 and a[0][0] == "star":
            inner = a[0][1]
            if inner[0] == "values" and inner[1][0] == "dictof":
                return ("zipT", inner[1][2])
            if inner[0] == "listof":
                return ("zipT", inner[1])
        if name == "map" and len(a) == 2:
            return ("map", a[0], a[1])
        if name == "map" and len(a) == 3:
            return ("map2", a[0], a[1], a[2])
        if name == "sum" and a and a[0][0] == "col":
            return ("sumover", a[0][1])
        if name == "sum" and a:
            x = a[0]
            if x[0] == "comp":
                x = self.comp_value(x)
            if x[0] in ("tuple", "list"):
                out = None
                for it in x[1:]:
                    out = it if out is None else ("bin", "+", out, it)
                return out if out is not None else const(0)
            if x[0] == "nt":
                out = None
                for it in x[3]:
                    out = it if out is None else ("bin", "+", out, it)
                return out
            return ("call", "sum", x)
        if name == "getattr" and len(a) >= 2 and a[1][0] == "const" and a[0][0] == "module":
            mn, attr = a[0][1], a[1][1]
            m2 = self.repo.mod(mn)
            if (mn, attr) in self.namedtuples or attr in m2.funcs or attr in m2.assigns \
                    or attr in m2.classes:
                return self.e_Attribute_of_module(mn, attr)
            return a[2] if len(a) == 3 else top(f"{mn} has no {attr}")
        if name == "getattr" and len(a) >= 2 and a[1][0] == "const":
            obj = a[0]
            if obj[0] == "nt":
                if a[1][1] in obj[2]:
                    return obj[3][obj[2].index(a[1][1])]
                if len(a) == 3:
                    return a[2]
            r = ("attr", obj, a[1][1])
            return phi(r, a[2]) if len(a) == 3 else r
        if name == "open" or name.endswith("open_binary") or name.endswith("open_text"):
            return ("fobj", a[0] if a else top())
        if name == "re.compile" and a:
            return ("regex", a[0], a[1] if len(a) > 1 else kwargs.get("flags", const(0)))
        if name in ("os.path.join",):
            parts = [_piece(x) for x in a]
            return ("tmpl", "/".join(p.strip("/") if i else p.rstrip("/")
                                     for i, p in enumerate(parts)))
        if name == "isinstance":
            return ("call", "isinstance", *a)
        if name in self.impure_ext:
            self.inst += 1
            return ("sample", name, self.inst)
        return ("call", name, *a)

    def method(self, recv, attr, args, kwargs, env, fi, recv_node):
        k = recv[0] if isinstance(recv, tuple) and recv else None
        a = args
        if k == "gphi":
            x = self.method(recv[2], attr, args, kwargs, env, fi, recv_node)
            y = self.method(recv[3], attr, args, kwargs, env, fi, recv_node)
            return x if x == y else ("gphi", recv[1], x, y)
        if k == "phi":
            return phi(*[self.method(x, attr, args, kwargs, env, fi, recv_node)
                         for x in recv[1:]])
        # constant folding of pure str/bytes methods on literal receivers
        if k == "const" and isinstance(recv[1], (str, bytes)) \
                and attr in ("replace", "strip", "lower", "upper", "startswith", "endswith",
                             "split", "decode", "encode", "rstrip", "lstrip", "count") \
                and all(x[0] == "const" for x in a) and not kwargs:
            try:
                r = getattr(recv[1], attr)(*[x[1] for x in a])
                if isinstance(r, list):
                    return ("list",) + tuple(const(x) for x in r)
                return const(r)
            except Exception:  # noqa: BLE001
                pass
        if attr == "split":
            sep = a[0] if a else NONE
            mx = a[1] if len(a) > 1 else kwargs.get("maxsplit", NONE)
            return ("split", recv, sep, mx)
        if attr in ("strip", "rstrip", "lstrip") and not a:
            return ("strip", recv)
        if attr in ("decode", "encode"):
            return ("decode", recv)
        if attr in ("lower", "upper"):
            return ("lower", recv)
        if attr in ("find", "rfind", "index", "rindex"):
            return ("find", recv, a[0] if a else NONE, "last" if attr.startswith("r") else "first")
        if attr in ("partition", "rpartition") and a and a[0][0] == "const":
            which = "last" if attr == "rpartition" else "first"
            pos = ("find", recv, a[0], which)
            n = len(a[0][1])
            return ("tuple", ("slice", recv, NONE, pos, NONE), a[0],
                    ("slice", recv, ("bin", "+", pos, const(n)), NONE, NONE))
        if attr in ("startswith", "endswith"):
            return ("call", attr, recv, *a)
        if attr == "replace":
            return ("call", "replace", recv, *a)
        if attr == "read" and k == "fobj":
            return ("file", recv[1])
        if attr == "readline" and k == "fobj":
            n = env.get(("@rl", recv), 0)
            env[("@rl", recv)] = n + 1
            return ("line", recv[1], n)
        if attr == "readlines" and k == "fobj":
            return ("lines", recv[1])
        if attr == "findall" and k == "regex":
            return ("findall", recv[1], a[0] if a else top(), recv[2])
        if attr in ("search", "match") and k == "regex":
            return ("rematch", recv[1], a[0] if a else top(), recv[2])
        if attr == "items":
            return ("items", recv)
        if attr == "values":
            return ("values", recv)
        if attr == "keys":
            return ("keys", recv)
        if attr == "get":
            d = a[1] if len(a) > 1 else NONE
            if k == "dict" and a[0][0] == "const":
                for kk, vv in recv[1]:
                    if kk == a[0]:
                        return vv
                return d
            return ("dget", recv, a[0], d)
        if attr == "pop" and k in ("listof",):
            return recv[1]
        if attr == "pop" and isinstance(recv_node, ast.Name) and k in ("list", "tuple") and recv[1:]:
            idx = a[0][1] if a and a[0][0] == "const" else -1
            items = list(recv[1:])
            v = items.pop(idx)
            env[recv_node.id] = (k,) + tuple(items)
            return v
        if attr == "pop" and isinstance(recv_node, ast.Name) and k == "lines":
            env[recv_node.id] = ("slice", recv, const(1), NONE, NONE)
            return ("line", recv[1], 0)
        if attr == "copy":
            return recv
        if attr == "join":
            return ("call", "join", recv, *a)
        if attr == "count":
            return ("call", "count", recv, *a)
        if attr == "append":
            return NONE
        if attr == "_replace" and k == "nt":
            vals = list(recv[3])
            for kk, vv in kwargs.items():
                if kk in recv[2]:
                    vals[recv[2].index(kk)] = vv
            return ("nt", recv[1], recv[2], tuple(vals))
        if attr in ("isdigit", "isupper"):
            return ("call", attr, recv)
        if attr == "group":
            return ("call", "group", recv, *a)
        return ("mcall", attr, recv, *a)


def _piece(x):
    """Text of one piece of a path template."""
    if not isinstance(x, tuple) or not x:
        return "{?}"
    if x[0] in ("const", "tmpl") and isinstance(x[1], str):
        return x[1]
    if x[0] in ("param", "free"):
        return "{" + str(x[1]) + "}"
    if x[0] == "sym":
        return "{" + x[1] + "}"
    if x[0] == "elem":
        return "{elem}"
    if x[0] in ("phi", "gphi", "when"):
        alts = [_piece(a) for a in alternatives(x)]
        return alts[0] if len(set(alts)) == 1 else "{?}"
    return "{?}"


def _is_container(v):
    return isinstance(v, tuple) and v and (v[0] in ("listof", "dictof")
                                           or (v[0] == "dict" and not v[1])
                                           or v == ("list",))


def _join_container(old, new):
    if isinstance(new, tuple) and new and new[0] == "dict" and not new[1]:
        return old if old != BOT else new
    if isinstance(old, tuple) and old and old[0] == "list":
        old = ("listof", phi(*old[1:]) if len(old) > 1 else BOT)
    if isinstance(new, tuple) and new and new[0] == "list":
        new = ("listof", phi(*new[1:]) if len(new) > 1 else BOT)
    if not isinstance(old, tuple) or not old or old == BOT:
        return new
    if old[0] == "listof" and new[0] == "listof":
        return ("listof", phi(old[1], new[1]))
    if old[0] == "dictof" and new[0] == "dictof":
        return ("dictof", phi(old[1], new[1]), phi(old[2], new[2]))
    if old[0] == "dict" and not old[1]:
        return new
    if old == new:
        return old
    return phi(old, new)


def _walk_no_loops(node):
    """Statements of a loop body that belong to that loop (not nested loops/defs)."""
    yield node
    if isinstance(node, (ast.For, ast.While, ast.FunctionDef, ast.AsyncFunctionDef,
                         ast.ClassDef, ast.Lambda)):
        return
    for ch in ast.iter_child_nodes(node):
        if isinstance(ch, ast.stmt) or isinstance(ch, ast.ExceptHandler):
            yield from _walk_no_loops(ch)


def _walk_own(node):
    """ast.walk that does not descend into nested function/class definitions."""
    todo = list(ast.iter_child_nodes(node))
    while todo:
        n = todo.pop()
        yield n
        if isinstance(n, (ast.FunctionDef, ast.AsyncFunctionDef, ast.ClassDef, ast.Lambda)):
            continue
        todo.extend(ast.iter_child_nodes(n))


def _load(t):
    """Copy of an assignment target usable as an expression."""
    import copy
    n = copy.deepcopy(t)
    for x in ast.walk(n):
        if hasattr(x, "ctx"):
            x.ctx = ast.Load()
    return n


def pretty(t, depth=0):
    """Compact human-readable rendering of a term."""
    if not isinstance(t, tuple) or not t:
        return repr(t)
    k = t[0]
    if not isinstance(k, str):
        return "[" + ", ".join(pretty(x, depth + 1) if isinstance(x, tuple) else repr(x)
                               for x in t) + "]"
    if k == "const":
        return repr(t[1])
    if k in ("param", "free", "sym"):
        return f"{t[1]}"
    if k == "glob":
        return t[1].split(".", 1)[1]
    if k == "tmpl":
        return f"'{t[1]}'"
    if k == "bin":
        return f"({pretty(t[2])} {t[1]} {pretty(t[3])})"
    if k == "idx":
        return f"{pretty(t[1])}[{t[2] if not isinstance(t[2], tuple) else pretty(t[2])}]"
    if k == "call":
        return f"{t[1]}({', '.join(pretty(x) for x in t[2:])})"
    if k == "nt":
        return f"{t[1].split('.')[-1]}(" + ", ".join(
            f"{f}={pretty(v)}" for f, v in zip(t[2], t[3])) + ")"
    if depth > 6:
        return k + "(...)"
    return k + "(" + ", ".join(pretty(x, depth + 1) if isinstance(x, tuple) else repr(x)
                               for x in t[1:]) + ")"
