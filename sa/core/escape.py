"""E3x: exception-escape analysis.

For every function: the set of (exception class, origin, site) that may leave
it.  Handler semantics follow Python: handlers are tried in order, matching by
the real class hierarchy; a bare `raise` (or `raise err` of the handler
variable) re-raises exactly what the handler caught; `raise X(...) from err`
is an explicit raise; else/finally bodies are added.  Decorated functions are
analysed as the decorator's wrapper with `fun` bound to the raw function.
Repo context managers (try: yield / except ...) filter the with-body.

Origins:  process  errno failure of an OS access whose target derives from a pid
          system   errno failure of a system-wide access
          arg      argument conversion (OverflowError from a C int)
          explicit raised by psutil code itself
          alive    re-raised under a successful liveness probe
"""

import ast
from collections import namedtuple

from .astutil import EXC_PARENTS, is_subclass
from .cfg import decompose_guard, handler_names
from .pyrepo import calls_in, dotted, norm_stmt

Exc = namedtuple("Exc", "cls origin site")

OS_FAMILY = ("FileNotFoundError", "ProcessLookupError", "PermissionError", "OSError")

# stdlib primitives: name -> classes raised
PRIMS = {
    "builtins.open": OS_FAMILY,
    "os.listdir": OS_FAMILY,
    "os.scandir": OS_FAMILY,
    "os.readlink": OS_FAMILY,
    "os.stat": OS_FAMILY,
    "os.lstat": OS_FAMILY,
    "os.statvfs": OS_FAMILY,
    "os.kill": ("ProcessLookupError", "PermissionError", "OSError", "OverflowError"),
    "os.waitpid": ("ChildProcessError", "InterruptedError", "OSError"),
    "resource.prlimit": ("ProcessLookupError", "PermissionError", "OSError",
                         "ValueError", "OverflowError"),
    "os.getpriority": ("ProcessLookupError", "PermissionError", "OSError"),
    "os.setpriority": ("ProcessLookupError", "PermissionError", "OSError"),
    "subprocess.Popen": ("FileNotFoundError", "PermissionError", "OSError"),
}
NO_RAISE_EXT = {"os.path.exists", "os.path.lexists", "os.path.isfile", "os.access",
                "os.path.join", "os.path.basename", "os.path.dirname", "os.getpid",
                "os.path.isabs", "os.path.realpath", "os.path.islink"}

LIVENESS_PROBES = ("os.path.exists", "os.path.lexists", "pid_exists")


class State:
    __slots__ = ("fi", "fun_raises", "caught", "hvars", "penv", "params_exc")

    def __init__(self, fi, fun_raises=None, penv=None):
        self.fi = fi
        self.fun_raises = fun_raises      # what calling `fun(...)` raises (wrappers)
        self.caught = []                  # stack of caught-item sets (handlers)
        self.hvars = {}                   # handler variable -> caught items
        self.penv = penv or {}            # param -> "given" | "default"
        self.params_exc = {}              # param name -> exception items (convert_oserror)


class Escape:
    def __init__(self, repo, analysis, plat):
        self.repo = repo
        self.A = analysis
        self.plat = plat
        self.memo = {}
        self.active = set()
        self.unresolved = 0
        self.resolved = 0
        self.sites = {}     # primitive access sites seen: site -> origin

    # ----------------------------------------------------------------- public
    def escapes(self, fi, decorated=True, penv=None):
        key = (id(fi.node), decorated, tuple(sorted((penv or {}).items())))
        if key in self.memo:
            return self.memo[key]
        if key in self.active:
            return frozenset()
        self.active.add(key)
        try:
            raw = self._body(fi, State(fi, penv=penv))
            res = raw
            if decorated:
                for d in reversed(fi.node.decorator_list):
                    res = self._apply_decorator(d, fi, res)
        finally:
            self.active.discard(key)
        self.memo[key] = frozenset(res)
        return self.memo[key]

    # ------------------------------------------------------------- decorators
    def _apply_decorator(self, d, fi, inner):
        dn = d.func if isinstance(d, ast.Call) else d
        name = dotted(dn)
        if name in ("contextlib.contextmanager", "property", "staticmethod",
                    "classmethod", "functools.wraps", "memoize"):
            return inner
        tg = self.repo.resolve_expr(dn, self.repo._outer(fi) if fi.parent is None
                                    else fi.parent, self.plat)
        for t in tg:
            if t[0] != "func":
                continue
            dec = t[1]
            w = self._wrapper_of(dec)
            if w is None:
                continue
            st = State(w, fun_raises=inner)
            return self._body(w, st)
        return inner

    def _wrapper_of(self, dec):
        """The nested function a decorator returns."""
        m = self.repo.mod(dec.module)
        nested = [f for q, fs in m.funcs.items() for f in fs if f.parent is dec
                  or (f.parent is not None and f.parent.parent is dec)]
        for f in nested:
            if any(c for c in calls_in(f.node) if dotted(c.func) == "fun"):
                return f
        return None

    # ------------------------------------------------------------------ bodies
    def _body(self, fi, st):
        return self._block(fi.node.body, st)

    def _file_vars(self, fi):
        """names bound to an open file object in fi -> the opening call."""
        key = ("fv", id(fi.node))
        if key in self.memo:
            return self.memo[key]
        out = {}
        for n in ast.walk(fi.node):
            pairs = []
            if isinstance(n, ast.With):
                pairs = [(i.optional_vars, i.context_expr) for i in n.items
                         if i.optional_vars is not None]
            elif isinstance(n, ast.Assign) and len(n.targets) == 1:
                pairs = [(n.targets[0], n.value)]
            for tgt, val in pairs:
                if isinstance(tgt, ast.Name) and isinstance(val, ast.Call):
                    fn = (dotted(val.func) or "").split(".")[-1]
                    if fn in ("open", "open_binary", "open_text"):
                        out[tgt.id] = val
        self.memo[key] = out
        return out

    def _block(self, stmts, st):
        out = set()
        for s in stmts:
            out |= self._stmt(s, st)
            if isinstance(s, (ast.Raise, ast.Return, ast.Continue, ast.Break)):
                break       # the rest of the block is unreachable
        return out

    def _stmt(self, s, st):
        if isinstance(s, (ast.FunctionDef, ast.AsyncFunctionDef, ast.ClassDef,
                          ast.Pass, ast.Break, ast.Continue, ast.Global,
                          ast.Nonlocal, ast.Import, ast.ImportFrom)):
            return set()
        if isinstance(s, ast.If):
            v = self._static_test(s.test, st)
            out = self._expr(s.test, st)
            if v is not False:
                out |= self._block(s.body, st)
            if v is not True:
                out |= self._block(s.orelse, st)
            return out
        if isinstance(s, (ast.For, ast.AsyncFor)):
            extra = set()
            if isinstance(s.iter, ast.Name) and s.iter.id in self._file_vars(st.fi):
                extra = self._read_errors(self._file_vars(st.fi)[s.iter.id], st, s)
            return (self._expr(s.iter, st) | extra | self._block(s.body, st)
                    | self._block(s.orelse, st))
        if isinstance(s, ast.While):
            return (self._expr(s.test, st) | self._block(s.body, st)
                    | self._block(s.orelse, st))
        if isinstance(s, (ast.With, ast.AsyncWith)):
            return self._with(s, st)
        if isinstance(s, ast.Try):
            return self._try(s, st)
        if isinstance(s, ast.Raise):
            return self._raise(s, st)
        if isinstance(s, ast.Assert):
            return self._expr(s.test, st)
        if isinstance(s, ast.Return):
            return self._expr(s.value, st) if s.value is not None else set()
        out = set()
        for ch in ast.iter_child_nodes(s):
            if isinstance(ch, ast.expr):
                out |= self._expr(ch, st)
        return out

    def _static_test(self, test, st):
        """Evaluate `P is _DEFAULT` style tests on parameters whose binding is
        known from the call site, and platform flags."""
        from .pyrepo import eval_cond, platform_flags
        v = eval_cond(test, platform_flags(self.plat))
        if v is not None:
            return v
        if isinstance(test, ast.Compare) and len(test.ops) == 1 \
                and isinstance(test.left, ast.Name) and test.left.id in st.penv:
            sentinel = dotted(test.comparators[0]) or (
                "None" if isinstance(test.comparators[0], ast.Constant)
                and test.comparators[0].value is None else None)
            if sentinel in ("_DEFAULT", "UNSET", "None", "_SENTINEL"):
                isdef = st.penv[test.left.id] == "default"
                if isinstance(test.ops[0], ast.Is):
                    return isdef
                if isinstance(test.ops[0], ast.IsNot):
                    return not isdef
        return None

    # -------------------------------------------------------------------- with
    def _with(self, s, st):
        out = set()
        opened = set()
        cm_try = None
        for it in s.items:
            e = it.context_expr
            r = self._expr(e, st)
            out |= r
            if isinstance(e, ast.Call):
                tg = self.repo.resolve_call(e, st.fi, self.plat)
                for t in tg:
                    if t[0] == "func" and "contextlib.contextmanager" in t[1].decorators:
                        tr = [x for x in t[1].node.body if isinstance(x, ast.Try)
                              and any(isinstance(y, (ast.Yield)) for b in x.body
                                      for y in ast.walk(b))]
                        if tr:
                            cm_try = (t[1], tr[0])
                # reading from a file opened on /proc can fail later (ESRCH at read)
                fam = {x for x in r if x.cls in OS_FAMILY
                       and x.origin in ("process", "system", "param")}
                if fam:
                    opened |= {x for x in fam if x.cls != "FileNotFoundError"}
        body = self._block(s.body, st)
        body |= opened
        if cm_try is not None:
            cmf, tr = cm_try
            cst = State(cmf)
            body = self._handlers(tr, body, cst)
        return out | body

    # --------------------------------------------------------------------- try
    def _try(self, s, st):
        body = self._block(s.body, st)
        out = self._handlers(s, body, st)
        out |= self._block(s.orelse, st)
        out |= self._block(s.finalbody, st)
        return out

    def _handlers(self, s, body, st):
        out = set()
        remaining = set(body)
        for h in s.handlers:
            names = handler_names(h)
            if names is None:
                caught = set(remaining)
            else:
                caught = {x for x in remaining if self._matches(x.cls, names)}
            remaining -= caught
            if not caught:
                # exceptions of plain expressions are not tracked as escapes, but a
                # handler written for one (KeyError on a subscript, AttributeError
                # on an attribute, ...) IS reached when the try body contains such
                # an expression: analyse its body, binding nothing
                imp = self._implicit(s, names)
                if not imp:
                    continue        # nothing reaches this handler
                caught = imp
            st.caught.append(caught)
            if h.name:
                old = st.hvars.get(h.name)
                st.hvars[h.name] = caught
            try:
                out |= self._block(h.body, st)
            finally:
                st.caught.pop()
                if h.name:
                    if old is None:
                        st.hvars.pop(h.name, None)
                    else:
                        st.hvars[h.name] = old
        return out | remaining

    def _implicit(self, s, names):
        """Implicit exception classes (by construct present in the try body) that
        the handler names cover; returned as non-escaping marker items."""
        if names is None:
            return set()
        have = set()
        for b in s.body:
            for x in ast.walk(b):
                if isinstance(x, ast.Subscript) and isinstance(x.ctx, ast.Load):
                    have |= {"KeyError", "IndexError"}
                elif isinstance(x, ast.Attribute) and isinstance(x.ctx, ast.Load) \
                        and isinstance(x.value, ast.Name):
                    have.add("AttributeError")
                elif isinstance(x, ast.Delete):
                    have |= {"AttributeError", "KeyError"}
                elif isinstance(x, ast.Call) and dotted(x.func) in ("int", "float"):
                    have.add("ValueError")
                elif isinstance(x, ast.Assign) and isinstance(x.targets[0], (ast.Tuple, ast.List)):
                    have.add("ValueError")
                elif isinstance(x, ast.BinOp) and isinstance(x.op, (ast.Div, ast.FloorDiv, ast.Mod)):
                    have.add("ZeroDivisionError")
        out = set()
        for c in have:
            if c in names or any(is_subclass(c, n) for n in names if n in (
                    "LookupError", "ArithmeticError")):
                out.add(Exc(c, "implicit", "expr"))
        return out

    @staticmethod
    def _matches(cls, names):
        for n in names:
            if cls == "OSError" and n in ("FileNotFoundError", "ProcessLookupError",
                                          "PermissionError", "ChildProcessError",
                                          "InterruptedError"):
                continue
            if is_subclass(cls, n):
                return True
            # socket.error / IOError / EnvironmentError aliases
            if n in ("IOError", "EnvironmentError", "error") and is_subclass(cls, "OSError"):
                return True
        return False

    # ------------------------------------------------------------------- raise
    def _raise(self, s, st):
        site = self._site(st.fi, s)
        if s.exc is None:
            items = set(st.caught[-1]) if st.caught else set()
            return self._probe_tag(s, st, items)
        e = s.exc
        if isinstance(e, ast.Call) and any(
                t[0] == "func" for t in self.repo.resolve_call(e, st.fi, self.plat)) \
                and not (dotted(e.func) or "").split(".")[-1] in EXC_PARENTS:
            out = set()
            for a in list(e.args) + [k.value for k in e.keywords]:
                out |= self._expr(a, st)
        else:
            out = self._expr(s.exc, st)
        if isinstance(e, ast.Name):
            if e.id in st.hvars:
                return out | self._refine(s, st, e.id, set(st.hvars[e.id]))
            if e.id in st.params_exc:
                return out | self._refine(s, st, e.id, set(st.params_exc[e.id]))
            # raise fallback  (under isinstance(fallback, C))
            cls = self._isinstance_fact(s, st, e.id)
            if cls is None and (e.id in EXC_PARENTS
                                or e.id in self.repo.mod(st.fi.module).classes
                                or e.id.endswith("Error")):
                cls = e.id
            return out | {Exc(cls or f"?{e.id}", "explicit", site)}
        if isinstance(e, ast.Call):
            cn = dotted(e.func)
            base = cn.split(".")[-1] if cn else None
            if base and (base in EXC_PARENTS or base.endswith("Error")
                         or base.endswith("Exception") or base in
                         ("NoSuchProcess", "ZombieProcess", "AccessDenied",
                          "TimeoutExpired")):
                return out | {Exc(base, "explicit", site)}
            # raise convert_oserror(err, ...): classes the helper returns + what
            # it re-raises of its argument
            tg = self.repo.resolve_call(e, st.fi, self.plat)
            for t in tg:
                if t[0] == "func":
                    return out | self._exc_factory(t[1], e, st, site)
            return out | {Exc(f"?{cn}", "explicit", site)}
        if isinstance(e, ast.Attribute) or isinstance(e, ast.Name):
            return out | {Exc(dotted(e).split(".")[-1], "explicit", site)}
        return out | {Exc("?", "explicit", site)}

    def _exc_factory(self, f, call, st, site):
        """`raise f(err, ...)`: run the factory abstractly once per caught item:
        isinstance()/errno tests on its first parameter are decided from the
        item's class (three-valued), `return X(...)` yields an explicit X,
        `raise <param>` re-raises the item."""
        params = [a.arg for a in f.node.args.args]
        items = set()
        for i, a in enumerate(call.args):
            if isinstance(a, ast.Name) and a.id in st.hvars and i == 0:
                items = set(st.hvars[a.id])
        if not items or not params:
            out = set()
            for r in ast.walk(f.node):
                if isinstance(r, ast.Return) and isinstance(r.value, ast.Call):
                    cn = dotted(r.value.func)
                    if cn:
                        out.add(Exc(cn.split(".")[-1], "explicit", site))
            return out
        out = set()
        for it in items:
            out |= self._run_factory(f, params[0], it, site)
        return out

    ERRNO_CLASS = {"ESRCH": "ProcessLookupError", "ENOENT": "FileNotFoundError",
                   "EPERM": "PermissionError", "EACCES": "PermissionError"}

    def _test3(self, test, var, item, fi):
        """True / False / None for a test about exception variable `var` whose
        value has class item.cls ('OSError' = any other errno)."""
        generic = item.cls == "OSError"
        if isinstance(test, ast.UnaryOp) and isinstance(test.op, ast.Not):
            v = self._test3(test.operand, var, item, fi)
            return None if v is None else not v
        if isinstance(test, ast.BoolOp):
            vals = [self._test3(v, var, item, fi) for v in test.values]
            if isinstance(test.op, ast.Or):
                if any(v is True for v in vals):
                    return True
                return False if all(v is False for v in vals) else None
            if any(v is False for v in vals):
                return False
            return True if all(v is True for v in vals) else None
        if isinstance(test, ast.Call) and dotted(test.func) == "isinstance" \
                and dotted(test.args[0]) == var:
            cs = self._class_names(test.args[1])
            if any(self._matches(item.cls, {c}) for c in cs):
                return True
            return False
        if isinstance(test, ast.Compare) and len(test.ops) == 1:
            l, r = dotted(test.left), test.comparators[0]
            if l in (f"{var}.errno",):
                names = [dotted(x) for x in (r.elts if isinstance(r, (ast.Set, ast.Tuple, ast.List))
                                             else [r])]
                classes = {self.ERRNO_CLASS.get((n or "").split(".")[-1]) for n in names}
                pos = isinstance(test.ops[0], (ast.Eq, ast.In))
                if item.cls in classes:
                    return pos
                if generic:
                    return None if None in classes else (not pos)
                return not pos
            if l in (f"{var}.winerror",):
                # Windows error codes other than the errno-mapped ones arrive
                # as the generic OSError class
                return None if generic else False
        if isinstance(test, ast.Call) and test.args and dotted(test.args[0]) == var:
            tg = self.repo.resolve_call(test, fi, self.plat)
            for t in tg:
                if t[0] == "func":
                    h = t[1]
                    hp = [a.arg for a in h.node.args.args]
                    rets = [r.value for r in ast.walk(h.node) if isinstance(r, ast.Return)
                            and r.value is not None]
                    if len(rets) == 1 and hp:
                        return self._test3(rets[0], hp[0], item, h)
        return None

    def _run_factory(self, f, var, item, site):
        out = set()

        def block(stmts):
            """returns True if control may fall through"""
            for s in stmts:
                if isinstance(s, (ast.Assert, ast.Expr, ast.Pass)):
                    continue
                if isinstance(s, ast.Return):
                    if isinstance(s.value, ast.Call) and dotted(s.value.func):
                        out.add(Exc(dotted(s.value.func).split(".")[-1], "explicit", site))
                    elif s.value is not None and dotted(s.value) == var:
                        out.add(item)
                    return False
                if isinstance(s, ast.Raise):
                    if s.exc is not None and dotted(s.exc) == var:
                        out.add(item)
                    elif isinstance(s.exc, ast.Call) and dotted(s.exc.func):
                        out.add(Exc(dotted(s.exc.func).split(".")[-1], "explicit", site))
                    return False
                if isinstance(s, ast.If):
                    v = self._test3(s.test, var, item, f)
                    ft = True
                    if v is True:
                        ft = block(s.body)
                    elif v is False:
                        ft = block(s.orelse)
                    else:
                        a = block(s.body)
                        b = block(s.orelse)
                        ft = a or b
                    if not ft:
                        return False
                    continue
            return True
        block(f.node.body)
        return out

    def _refine(self, s, st, var, items):
        """Narrow re-raised items by isinstance()/helper facts dominating the raise."""
        cfg = self.A.cfg(st.fi)
        for n in cfg.nodes_of(s):
            for expr, pol, _ in cfg.guards(n):
                for a, t in decompose_guard(expr, pol):
                    if t is not False or not isinstance(a, ast.Call):
                        continue
                    fn = dotted(a.func)
                    if fn == "isinstance" and len(a.args) == 2 and dotted(a.args[0]) == var:
                        for c in self._class_names(a.args[1]):
                            items = {x for x in items if not self._matches(x.cls, {c})}
                    elif a.args and dotted(a.args[0]) == var:
                        # helper(var) is False  =>  every isinstance disjunct is False
                        tg = self.repo.resolve_call(a, st.fi, self.plat)
                        for tt in tg:
                            if tt[0] == "func":
                                for c in self._isinstance_disjuncts(tt[1]):
                                    items = {x for x in items
                                             if not self._matches(x.cls, {c})}
        return self._probe_tag(s, st, items)

    def _isinstance_disjuncts(self, f):
        p = [a.arg for a in f.node.args.args]
        out = []
        for r in ast.walk(f.node):
            if isinstance(r, ast.Return) and r.value is not None:
                vals = r.value.values if isinstance(r.value, ast.BoolOp) \
                    and isinstance(r.value.op, ast.Or) else [r.value]
                for v in vals:
                    if isinstance(v, ast.Call) and dotted(v.func) == "isinstance" \
                            and p and dotted(v.args[0]) == p[0]:
                        out += self._class_names(v.args[1])
        return out

    @staticmethod
    def _class_names(e):
        elts = e.elts if isinstance(e, ast.Tuple) else [e]
        return [dotted(x).split(".")[-1] for x in elts if dotted(x)]

    def _isinstance_fact(self, s, st, var):
        cfg = self.A.cfg(st.fi)
        for n in cfg.nodes_of(s):
            for expr, pol, _ in cfg.guards(n):
                for a, t in decompose_guard(expr, pol):
                    if t is True and isinstance(a, ast.Call) and dotted(a.func) == "isinstance" \
                            and dotted(a.args[0]) == var:
                        cs = self._class_names(a.args[1])
                        if cs:
                            return cs[0]
        return None

    def _probe_tag(self, s, st, items):
        """A re-raise that is control-dependent on a successful liveness probe
        ("the process is still there") is tagged origin='alive'."""
        cfg = self.A.cfg(st.fi)
        alive = False
        for n in cfg.nodes_of(s):
            for expr, pol, _ in cfg.guards(n):
                for a, t in decompose_guard(expr, pol):
                    if isinstance(a, ast.Call) and t is True:
                        fn = dotted(a.func) or ""
                        if fn in LIVENESS_PROBES or fn.endswith("pid_exists"):
                            alive = True
                    if isinstance(a, ast.Call) and t is False:
                        pass
        if alive:
            return {Exc(x.cls, "alive" if x.origin in ("process", "param") else x.origin,
                        x.site) for x in items}
        return items

    # -------------------------------------------------------------- expressions
    def _expr(self, e, st):
        out = set()
        if e is None:
            return out
        for c in calls_in(e):
            out |= self._call(c, st)
        return out

    def _read_errors(self, open_call, st, node):
        """read(2) on a /proc file can fail after a successful open (ESRCH when
        the process went away, EACCES for protected files)."""
        org = self._origin(open_call, st)
        site = self._site(st.fi, node)
        return {Exc(c, org, site) for c in ("ProcessLookupError", "PermissionError",
                                            "OSError")}

    def _site(self, fi, node):
        return f"{fi.file}:{getattr(node, 'lineno', 0)}:{fi.qual}"

    def _origin(self, call, st):
        """process / system for an OS access, from its argument expressions."""
        fi = st.fi
        names = set()
        from .analysis import assigned_names
        asg = assigned_names(fi.node)

        def collect(x, depth=0):
            for n in ast.walk(x):
                d = dotted(n)
                if isinstance(n, ast.Name):
                    names.add(n.id)
                    if depth < 3:
                        for a in asg.get(n.id, []):
                            v = getattr(a, "value", None)
                            # follow only path construction: a value *returned* by
                            # a call (or iterated from one) is data, not a target
                            if v is None or isinstance(a, (ast.For, ast.With)):
                                continue
                            if isinstance(v, ast.Call) and (dotted(v.func) or "") not in (
                                    "os.path.join", "str", "pjoin", "os.path.dirname",
                                    "os.path.basename") and not (
                                    isinstance(v.func, ast.Attribute) and v.func.attr in (
                                        "format", "join", "encode", "decode")):
                                continue
                            collect(v, depth + 1)
                elif isinstance(n, ast.Attribute) and d:
                    names.add(d)
        for a in list(call.args) + [k.value for k in call.keywords]:
            collect(a)
        params = {p.arg for p in fi.node.args.args + fi.node.args.kwonlyargs}
        pidish = {n for n in names if n in ("pid", "self.pid", "inst.pid", "tid")
                  or n.endswith(".pid")}
        if pidish:
            return "process"
        if names & (params - {"self", "cls"}):
            return "param"        # path handed in by the caller: decided at the call site
        return "system"

    def _call(self, c, st):
        fi = st.fi
        site = self._site(fi, c)
        fn = dotted(c.func)
        if fn == "fun" and st.fun_raises is not None:
            return set(st.fun_raises)
        if isinstance(c.func, ast.Attribute) and isinstance(c.func.value, ast.Name) \
                and c.func.attr in ("read", "readline", "readlines") \
                and c.func.value.id in self._file_vars(fi):
            return self._read_errors(self._file_vars(fi)[c.func.value.id], st, c)
        tg = self.repo.resolve_call(c, fi, self.plat)
        # self.X inside a decorator's wrapper refers to the module's Process
        if tg and tg[0][0] == "unknown" and isinstance(c.func, ast.Attribute) \
                and dotted(c.func.value) in ("self", "inst") and fi.cls is None:
            t2 = self.repo._method(fi.module, "Process", c.func.attr)
            if t2:
                tg = t2
        out = set()
        hit = False
        for t in tg:
            if t[0] == "func":
                hit = True
                callee = t[1]
                if self.A.defined(callee, self.plat) is False:
                    continue
                penv = {}
                a = callee.node.args
                pos = [p.arg for p in a.args]
                if pos and pos[0] in ("self", "cls") and isinstance(c.func, ast.Attribute):
                    pos = pos[1:]
                argmap = {}
                for i, av in enumerate(c.args):
                    if i < len(pos):
                        argmap[pos[i]] = av
                for k in c.keywords:
                    if k.arg:
                        argmap[k.arg] = k.value
                ndef = len(a.defaults)
                for p in [x.arg for x in a.args][len(a.args) - ndef:]:
                    if p not in argmap:
                        penv[p] = "default"
                    else:
                        av = argmap[p]
                        # a sentinel default forwarded unchanged stays a default
                        if isinstance(av, ast.Name) and st.penv.get(av.id) == "default":
                            penv[p] = "default"
                        else:
                            penv[p] = "given"
                sub = self.escapes(callee, True, penv)
                # a path handed to a helper (open_binary, bcat, readlink,
                # isfile_strict, process_inet ...): the access belongs to *this*
                # call site, whose argument says whether it is per-process
                if any(x.origin == "param" for x in sub):
                    org = self._origin(c, st)
                    self.sites[site] = org
                    sub = {Exc(x.cls, org, site) if x.origin == "param" else x
                           for x in sub}
                out |= set(sub)
            elif t[0] == "native":
                hit = True
                base = t[1].split(".")[-1]
                if base in ("getpagesize", "set_debug", "check_pid_range") \
                        and base != "check_pid_range":
                    continue
                if base == "check_pid_range":
                    out.add(Exc("OverflowError", "arg", site))
                    continue
                org = self._origin(c, st) if (c.args or c.keywords) else "system"
                for cls in OS_FAMILY:
                    out.add(Exc(cls, org, site))
                self.sites[site] = org
                if org in ("process", "param"):
                    out.add(Exc("OverflowError", "arg", site))
            elif t[0] == "ext":
                hit = True
                name = t[1]
                if name in PRIMS:
                    org = self._origin(c, st)
                    self.sites[site] = org
                    classes = PRIMS[name]
                    if name == "os.kill" and len(c.args) > 1 \
                            and isinstance(c.args[1], ast.Constant) and c.args[1].value == 0:
                        # kill(2) with signal 0: only ESRCH / EPERM are possible
                        classes = ("ProcessLookupError", "PermissionError", "OverflowError")
                    for cls in classes:
                        o = "arg" if cls == "OverflowError" else org
                        out.add(Exc(cls, o, site))
            elif t[0] in ("class",):
                hit = True
        if hit:
            self.resolved += 1
        else:
            self.unresolved += 1
        return out
