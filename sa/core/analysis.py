"""E3 helpers: per-function CFG cache, call graph per platform configuration,
canonical branch facts, parameter mapping at call sites."""

import ast

from .cfg import CFG, decompose_guard
from .pyrepo import (PLATFORM_MODULES, calls_in, dotted, eval_cond, norm_stmt,
                     platform_flags)

PLATFORMS = ["linux", "windows", "macos", "freebsd", "openbsd", "netbsd",
             "sunos", "aix"]


class Analysis:
    def __init__(self, repo):
        self.repo = repo
        self._cfg = {}
        self._cg = {}

    def cfg(self, fi):
        k = id(fi.node)
        if k not in self._cfg:
            self._cfg[k] = CFG(fi.node)
        return self._cfg[k]

    # ---------------------------------------------------------------- defined?
    def defined(self, fi, plat):
        """Three-valued: is this definition active on `plat`?  Evaluates the
        enclosing module/class-level `if` tests under the platform flags;
        hasattr(_psplatform.Process, "x") is answered from the platform module."""
        flags = platform_flags(plat)
        res = True
        for test, pol in fi.conds:
            v = self._eval(test, flags, plat, fi.module)
            if v is None:
                res = None if res is True else res
                continue
            if v != pol:
                return False
        return res

    def _eval(self, test, flags, plat, module):
        v = eval_cond(test, flags)
        if v is not None:
            return v
        if isinstance(test, ast.Call) and dotted(test.func) == "hasattr" \
                and len(test.args) == 2 and isinstance(test.args[1], ast.Constant):
            tgt = dotted(test.args[0])
            name = test.args[1].value
            pm = PLATFORM_MODULES[plat]
            if tgt == "_psplatform.Process" and module == "psutil":
                fs = self.repo.funcs(pm, f"Process.{name}")
                vals = [self.defined(f, plat) for f in fs]
                if any(v is True for v in vals):
                    return True
                if any(v is None for v in vals):
                    return None
                # class-level alias
                if self.repo._method(pm, "Process", name):
                    return None
                return False
            if tgt == "_psplatform" and module == "psutil":
                m = self.repo.mod(pm)
                fs = m.funcs.get(name, [])
                vals = [self.defined(f, plat) for f in fs]
                if any(v is True for v in vals):
                    return True
                if any(v is None for v in vals) or name in m.assigns or name in m.imports:
                    return None
                return False
        if isinstance(test, ast.BoolOp):
            vals = [self._eval(v, flags, plat, module) for v in test.values]
            if isinstance(test.op, ast.And):
                if any(v is False for v in vals):
                    return False
                return True if all(v is True for v in vals) else None
            if any(v is True for v in vals):
                return True
            return False if all(v is False for v in vals) else None
        if isinstance(test, ast.UnaryOp) and isinstance(test.op, ast.Not):
            v = self._eval(test.operand, flags, plat, module)
            return None if v is None else not v
        return None

    # --------------------------------------------------------------- call graph
    def calls(self, fi, plat):
        """[(ast.Call, [targets])] for calls lexically in fi (not nested defs),
        with statically dead platform branches inside the body pruned."""
        key = (id(fi.node), plat)
        if key in self._cg:
            return self._cg[key]
        flags = platform_flags(plat)
        out = []
        dead = self.dead_nodes(fi, plat)
        for c in calls_in(fi.node):
            if True:
                if id(c) in dead:
                    continue
                tg = [t for t in self.repo.resolve_call(c, fi, plat)
                      if not (t[0] == "func" and self.defined(t[1], plat) is False)]
                out.append((c, tg))
        self._cg[key] = out
        return out

    def dead_nodes(self, fi, plat):
        """ids of AST nodes inside fi that are under an `if <platform flag>`
        branch which is statically false for `plat`."""
        flags = platform_flags(plat)
        dead = set()

        def mark(nodes):
            for n in nodes:
                for s in ast.walk(n):
                    dead.add(id(s))

        def rec(stmts):
            for st in stmts:
                if isinstance(st, ast.If):
                    v = eval_cond(st.test, flags)
                    if v is True:
                        mark(st.orelse)
                        rec(st.body)
                    elif v is False:
                        mark(st.body)
                        rec(st.orelse)
                    else:
                        rec(st.body)
                        rec(st.orelse)
                elif isinstance(st, (ast.For, ast.While, ast.With)):
                    rec(st.body)
                    rec(getattr(st, "orelse", []))
                elif isinstance(st, ast.Try):
                    rec(st.body)
                    for h in st.handlers:
                        rec(h.body)
                    rec(st.orelse)
                    rec(st.finalbody)
        rec(fi.node.body)
        # `X and <flag-false>` style sub-expressions are left alone (rare)
        return dead

    def live_cfg_nodes(self, fi, plat):
        """CFG nodes of fi that are not in a platform-dead branch."""
        cfg = self.cfg(fi)
        dead = self.dead_nodes(fi, plat)
        out = []
        for n in cfg.nodes:
            anchor = n.stmt if n.kind != "branch" else None
            if anchor is not None and id(anchor) in dead:
                continue
            out.append(n)
        return out


# ------------------------------------------------------------------ facts
def norm_fact(expr, truth):
    """Canonical form of a branch fact.
       ('isnone', name, bool)   x is None / x is not None
       ('truthy', name, bool)   x / not x
       ('cmp', name, op, const, bool)   x < 0, x == 0, x <= 0 ...
       ('in', elem, container, bool)    x in c / x not in c
       ('eq', a, b, bool)               a == b / a != b (operands sorted)
       ('isinstance', obj, cls, bool)
       ('is', a, b, bool)               a is b / a is not b (b not None)
       ('expr', text, bool)"""
    if isinstance(expr, ast.Compare) and len(expr.ops) == 1:
        l, op, r = expr.left, expr.ops[0], expr.comparators[0]
        ln = dotted(l)
        if ln and isinstance(r, ast.Constant) and r.value is None:
            if isinstance(op, ast.Is):
                return ("isnone", ln, truth)
            if isinstance(op, ast.IsNot):
                return ("isnone", ln, not truth)
        if ln and isinstance(r, ast.Constant) and isinstance(r.value, (int, float)) \
                and not isinstance(r.value, bool):
            ops = {ast.Lt: "<", ast.LtE: "<=", ast.Gt: ">", ast.GtE: ">=",
                   ast.Eq: "==", ast.NotEq: "!="}
            o = ops.get(type(op))
            if o:
                return ("cmp", ln, o, r.value, truth)
        # membership and general (in)equality, one spelling each
        if isinstance(op, (ast.In, ast.NotIn)):
            return ("in", norm_stmt(l), norm_stmt(r), truth != isinstance(op, ast.NotIn))
        if isinstance(op, (ast.Eq, ast.NotEq)):
            a, b = sorted((norm_stmt(l), norm_stmt(r)))
            return ("eq", a, b, truth != isinstance(op, ast.NotEq))
        if isinstance(op, (ast.Is, ast.IsNot)):
            return ("is", norm_stmt(l), norm_stmt(r), truth != isinstance(op, ast.IsNot))
    n = dotted(expr)
    if n:
        return ("truthy", n, truth)
    if isinstance(expr, ast.Call) and dotted(expr.func) == "isinstance" and len(expr.args) == 2:
        return ("isinstance", norm_stmt(expr.args[0]), norm_stmt(expr.args[1]), truth)
    return ("expr", norm_stmt(expr), truth)


def facts(cfg, node):
    out = []
    for expr, pol, _ in cfg.guards(node):
        for a, t in decompose_guard(expr, pol):
            out.append(norm_fact(a, t))
    return out


def implies_nonzero(fact, name):
    """Does `fact` imply name != 0 ?"""
    if fact[0] == "cmp" and fact[1] == name:
        _, _, op, c, truth = fact
        if op == "==" and c == 0 and not truth:
            return True
        if op == "!=" and c == 0 and truth:
            return True
        if op == "<=" and c == 0 and not truth:
            return True
        if op == ">" and c == 0 and truth:
            return True
        if op == ">=" and c >= 1 and truth:
            return True
        if op == "<" and c == 1 and not truth:
            return True
    return False


def implies_nonneg(fact, name):
    """Does `fact` imply name >= 0 ?"""
    if fact[0] == "cmp" and fact[1] == name:
        _, _, op, c, truth = fact
        if op == "<" and c <= 0 and not truth:       # not (x < 0)
            return True
        if op == "<=" and c <= -1 and not truth:
            return True
        if op == "<=" and c == 0 and not truth:      # not (x <= 0)  => x > 0
            return True
        if op == ">=" and c >= 0 and truth:
            return True
        if op == ">" and c >= -1 and truth:
            return True
    return False


def contradicts(f1, f2):
    """Two canonical facts about the same subject with opposite truth."""
    if f1[0] != f2[0]:
        return False
    return f1[:-1] == f2[:-1] and f1[-1] != f2[-1]


def param_names(fnode, skip_self=False):
    a = fnode.args
    names = [p.arg for p in a.posonlyargs + a.args]
    if skip_self and names and names[0] in ("self", "cls"):
        names = names[1:]
    return names, [p.arg for p in a.kwonlyargs]


def map_args(call, callee_node, bound_method):
    """param name -> argument expr for a call (positional + keyword).
    Missing params map to their default expr (or None if no default)."""
    a = callee_node.args
    pos = [p.arg for p in a.posonlyargs + a.args]
    if bound_method and pos and pos[0] in ("self", "cls"):
        pos_eff = pos[1:]
    else:
        pos_eff = pos
    m = {}
    for i, arg in enumerate(call.args):
        if isinstance(arg, ast.Starred):
            break
        if i < len(pos_eff):
            m[pos_eff[i]] = arg
    for kw in call.keywords:
        if kw.arg:
            m[kw.arg] = kw.value
    ndef = len(a.defaults)
    for p, d in zip(pos[len(pos) - ndef:], a.defaults):
        m.setdefault(p, d)
    for p, d in zip(a.kwonlyargs, a.kw_defaults):
        if d is not None:
            m.setdefault(p.arg, d)
    return m


def assigned_names(fnode):
    """name -> list of assignment statements in function (not nested defs)."""
    out = {}

    def rec(n):
        for ch in ast.iter_child_nodes(n):
            if isinstance(ch, (ast.FunctionDef, ast.AsyncFunctionDef, ast.Lambda,
                               ast.ClassDef)):
                continue
            if isinstance(ch, (ast.Assign, ast.AugAssign, ast.AnnAssign, ast.For,
                               ast.With, ast.NamedExpr)):
                tgts = []
                if isinstance(ch, ast.Assign):
                    tgts = ch.targets
                elif isinstance(ch, (ast.AugAssign, ast.AnnAssign, ast.NamedExpr)):
                    tgts = [ch.target]
                elif isinstance(ch, ast.For):
                    tgts = [ch.target]
                elif isinstance(ch, ast.With):
                    tgts = [i.optional_vars for i in ch.items if i.optional_vars]
                for t in tgts:
                    for s in ast.walk(t):
                        if isinstance(s, ast.Name) and isinstance(s.ctx, ast.Store):
                            out.setdefault(s.id, []).append(ch)
            rec(ch)
    rec(fnode)
    return out


def stale_in_loop(cfg, loop, use_stmt, fnode):
    """Names read by `use_stmt` (inside the body of `loop`) that can still hold a
    value from BEFORE this iteration when the statement runs: there is a path from
    the loop header to the statement on which the name is not assigned.  Such a
    name carries state from the previous record/line into the current one.
    Names that are never assigned inside the loop (true loop invariants) and the
    loop target itself are not reported."""
    import ast as _ast
    target = {n.id for n in _ast.walk(loop.target) if isinstance(n, _ast.Name)} \
        if isinstance(loop, (_ast.For, _ast.AsyncFor)) else set()
    inside = [s for b in loop.body for s in _ast.walk(b) if isinstance(s, _ast.stmt)]
    defs = {}
    for s in inside:
        tg = []
        if isinstance(s, _ast.Assign):
            tg = s.targets
        elif isinstance(s, (_ast.AugAssign, _ast.AnnAssign)):
            tg = [s.target]
        elif isinstance(s, (_ast.For, _ast.AsyncFor)):
            tg = [s.target]
        elif isinstance(s, (_ast.With, _ast.AsyncWith)):
            tg = [i.optional_vars for i in s.items if i.optional_vars is not None]
        for t in tg:
            for n in _ast.walk(t):
                if isinstance(n, _ast.Name) and isinstance(n.ctx, _ast.Store):
                    defs.setdefault(n.id, []).append(s)
    heads = cfg.nodes_of(loop)
    uses = cfg.nodes_of(use_stmt)
    out = []
    read = {n.id for n in _ast.walk(use_stmt) if isinstance(n, _ast.Name)
            and isinstance(n.ctx, _ast.Load)}
    for name in sorted(read):
        if name in target or name not in defs:
            continue
        avoid = [n for s in defs[name] for n in cfg.nodes_of(s)]
        starts = list(heads)
        # an assignment inside a try body whose right-hand side can raise leaves
        # for the handler WITHOUT having bound the name: the handler's entry is
        # reached with the old value whenever the assignment itself is
        for s in defs[name]:
            if not any(isinstance(c, _ast.Call) for c in _ast.walk(s)):
                continue
            for t in inside:
                if isinstance(t, _ast.Try) and any(s is b or any(s is w for w in _ast.walk(b))
                                                   for b in t.body):
                    own = set(cfg.nodes_of(s))
                    others = [n for n in avoid if n not in own]
                    if any(cfg.path_exists(h, n, avoid=others) for h in heads for n in own):
                        for h_ in t.handlers:
                            if h_.body:
                                starts += list(cfg.nodes_of(h_.body[0]))
        if any(cfg.path_exists(h, u, avoid=avoid) for h in starts for u in uses
               if u not in avoid and h not in avoid):
            out.append(name)
    return out


def unflushed_generators(fnode):
    """Generators (fnode itself or functions nested in it) that emit records one
    step BEHIND their input - inside a loop, `yield <pending>` is followed, in the
    same block, by statements that store the current item as the new pending state -
    and that do not yield once more after the loop: the last record is lost.
    Returns [(generator node, in-loop yield stmt)]."""
    import ast as _ast
    out = []
    for g in _ast.walk(fnode):
        if not isinstance(g, (_ast.FunctionDef, _ast.AsyncFunctionDef)):
            continue
        for k, lp in enumerate(g.body):
            if not isinstance(lp, (_ast.For, _ast.While)):
                continue
            tnames = {n.id for n in _ast.walk(lp.target) if isinstance(n, _ast.Name)} \
                if isinstance(lp, _ast.For) else set()
            lagging = []

            def scan(stmts):
                for i, st in enumerate(stmts):
                    if isinstance(st, _ast.Expr) and isinstance(st.value, _ast.Yield):
                        rest = stmts[i + 1:]
                        # what the yield reads ...
                        read = {n.id for n in _ast.walk(st.value) if isinstance(n, _ast.Name)}
                        # ... is re-loaded from the current item right afterwards
                        for r in rest:
                            stores = set()
                            if isinstance(r, _ast.Assign):
                                stores = {n.id for t in r.targets for n in _ast.walk(t)
                                          if isinstance(n, _ast.Name)}
                            elif isinstance(r, _ast.Expr) and isinstance(r.value, _ast.Call) \
                                    and isinstance(r.value.func, _ast.Attribute) \
                                    and r.value.func.attr in ("append", "add", "extend", "insert") \
                                    and isinstance(r.value.func.value, _ast.Name):
                                stores = {r.value.func.value.id}
                            uses_item = any(isinstance(n, _ast.Name) and n.id in tnames
                                            for n in _ast.walk(r))
                            if stores & read and uses_item:
                                lagging.append(st)
                                break
                    for f in ("body", "orelse", "finalbody"):
                        sub = getattr(st, f, None)
                        if isinstance(sub, list) and sub and isinstance(sub[0], _ast.stmt) \
                                and not isinstance(st, (_ast.FunctionDef, _ast.AsyncFunctionDef)):
                            scan(sub)
                    for h in getattr(st, "handlers", []) or []:
                        scan(h.body)
            scan(lp.body)
            if not lagging:
                continue
            after = [s for s in g.body[k + 1:] for n in _ast.walk(s)
                     if isinstance(n, _ast.Yield)]
            if not after:
                out.append((g, lagging[0]))
    return out


def facts_deref(cfg, node, fnode):
    """facts() plus the same facts with single-assignment temporaries resolved
    (cached = self._x; if cached is not S: ...  ==  if self._x is not S: ...)."""
    from .astutil import deref
    out = []
    for expr, pol, _ in cfg.guards(node):
        for a, t in decompose_guard(expr, pol):
            f1 = norm_fact(a, t)
            out.append(f1)
            f2 = norm_fact(deref(fnode, a), t)
            if f2 != f1:
                out.append(f2)
    return out
