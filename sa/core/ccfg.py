"""Statement-level CFG over clang's JSON AST for one C function, with goto /
label / loops / break / continue, and a small resource typestate dataflow."""

from . import cfront as C


class N:
    __slots__ = ("id", "ast", "kind", "succ", "cond", "pol")

    def __init__(self, i, ast, kind, cond=None, pol=None):
        self.id = i
        self.ast = ast
        self.kind = kind      # entry | exit | stmt | test | branch
        self.succ = []
        self.cond = cond
        self.pol = pol


class CCFG:
    def __init__(self, fn):
        self.fn = fn
        self.nodes = []
        self.entry = self._n(None, "entry")
        self.exit = self._n(None, "exit")
        self.labels = {}
        self.gotos = []
        body = [k for k in C.kids(fn) if k.get("kind") == "CompoundStmt"]
        out = self._stmt(body[0], [self.entry], None, None) if body else [self.entry]
        for o in out:
            o.succ.append(self.exit)
        for g, name in self.gotos:
            if name in self.labels:
                g.succ.append(self.labels[name])

    def _n(self, ast, kind, cond=None, pol=None):
        n = N(len(self.nodes), ast, kind, cond, pol)
        self.nodes.append(n)
        return n

    def _link(self, preds, n):
        for p in preds:
            p.succ.append(n)

    def _stmt(self, s, preds, brk, cont):
        k = s.get("kind")
        if k == "CompoundStmt":
            cur = preds
            for c in C.kids(s):
                cur = self._stmt(c, cur, brk, cont)
            return cur
        if k == "IfStmt":
            ks = C.kids(s)
            cond, then = ks[0], ks[1]
            els = ks[2] if len(ks) > 2 else None
            t = self._n(cond, "test")
            self._link(preds, t)
            bt = self._n(s, "branch", cond, True)
            bf = self._n(s, "branch", cond, False)
            t.succ += [bt, bf]
            o1 = self._stmt(then, [bt], brk, cont)
            o2 = self._stmt(els, [bf], brk, cont) if els is not None else [bf]
            return o1 + o2
        if k in ("WhileStmt", "ForStmt", "DoStmt"):
            ks = C.kids(s)
            if k == "WhileStmt":
                cond, body, init, inc = ks[0], ks[1], None, None
            elif k == "DoStmt":
                body, cond, init, inc = ks[0], ks[1], None, None
            else:
                # ForStmt: init, (condvar), cond, inc, body  (missing parts are {} )
                raw = [c for c in s.get("inner", [])]
                parts = [c if isinstance(c, dict) and c.get("kind") else None for c in raw]
                init, cond, inc, body = parts[0], parts[2] if len(parts) > 4 else parts[1], \
                    parts[3] if len(parts) > 4 else parts[2], parts[-1]
            cur = preds
            if init is not None:
                cur = self._stmt(init, cur, None, None)
            t = self._n(cond, "test")
            breaks, conts = [], []
            if k == "DoStmt":
                o = self._stmt(body, cur, breaks, conts)
                self._link(o + conts, t)
                bt = self._n(s, "branch", cond, True)
                bf = self._n(s, "branch", cond, False)
                t.succ += [bt, bf]
                first = self.nodes[[n.id for n in self.nodes].index(t.id)]
                # back edge to the body start: approximate by re-linking bt to t's preds' targets
                bt.succ.append(t)
                return [bf] + breaks
            self._link(cur, t)
            const_true = C.int_value(cond) not in (None, 0) if cond is not None else True
            bt = self._n(s, "branch", cond, True)
            t.succ.append(bt)
            outs = []
            if not const_true:
                bf = self._n(s, "branch", cond, False)
                t.succ.append(bf)
                outs.append(bf)
            o = self._stmt(body, [bt], breaks, conts)
            tail = o + conts
            if inc is not None:
                i_n = self._n(inc, "stmt")
                self._link(tail, i_n)
                tail = [i_n]
            self._link(tail, t)
            return outs + breaks
        if k == "ReturnStmt":
            n = self._n(s, "return")
            self._link(preds, n)
            n.succ.append(self.exit)
            return []
        if k == "GotoStmt":
            n = self._n(s, "goto")
            self._link(preds, n)
            name = None
            tid = s.get("targetLabelDeclId")
            self.gotos.append((n, tid))
            return []
        if k == "LabelStmt":
            n = self._n(s, "label")
            self._link(preds, n)
            self.labels[s.get("declId")] = n
            cur = [n]
            for c in C.kids(s):
                cur = self._stmt(c, cur, brk, cont)
            return cur
        if k == "BreakStmt":
            n = self._n(s, "stmt")
            self._link(preds, n)
            if brk is not None:
                brk.append(n)
            return []
        if k == "ContinueStmt":
            n = self._n(s, "stmt")
            self._link(preds, n)
            if cont is not None:
                cont.append(n)
            return []
        if k in ("SwitchStmt",):
            n = self._n(s, "stmt")
            self._link(preds, n)
            return [n]
        n = self._n(s, "stmt")
        self._link(preds, n)
        return [n]


def _names(n):
    return {(x.get("referencedDecl") or {}).get("name") for x in C.walk(n)} - {None}


def null_test(cond, var):
    """+1 if cond true means var is null/failed, -1 if cond true means non-null,
    0 if cond does not decide it."""
    c = C.strip(cond) if cond else None
    if c is None:
        return 0
    if c.get("kind") == "BinaryOperator" and c.get("opcode") in ("||",):
        vals = [null_test(k, var) for k in C.kids(c)]
        if all(v == 1 for v in vals):
            return 1
        return 0
    if c.get("kind") == "BinaryOperator" and c.get("opcode") in ("==", "!="):
        a, b = C.kids(c)
        if var in _names(c):
            other = b if var in _names(a) else a
            v = C.int_value(other)
            isnull = v in (0, -1) or "NullToPointer" in str(other) or v is None and \
                any(x.get("castKind") == "NullToPointer" for x in C.walk(other))
            if isnull:
                return 1 if c.get("opcode") == "==" else -1
    if c.get("kind") == "UnaryOperator" and c.get("opcode") == "!" and var in _names(c):
        return 1
    if c.get("kind") == "DeclRefExpr" and (c.get("referencedDecl") or {}).get("name") == var:
        return -1
    return 0


def typestate(fn, acquire, release, extra_release=()):
    """Leak / double-release report for one acquire/release pair in fn.

    Returns (n_acquire_sites, leaks, doubles) where leaks is a list of line
    numbers of returns reachable while the resource is held."""
    cfg = CCFG(fn)
    leaks, doubles = [], []
    sites = 0

    def call_in(n, name):
        if n.ast is None or n.kind in ("branch", "label", "goto"):
            return None
        for x in C.walk(n.ast):
            if x.get("kind") == "CallExpr" and C.callee(x) == name:
                return x
        return None

    # resource variable per acquire site
    for start in cfg.nodes:
        acq = call_in(start, acquire)
        if acq is None:
            continue
        sites += 1
        var = None
        st = start.ast
        if st.get("kind") == "BinaryOperator" and st.get("opcode") == "=":
            var = (C.strip_all(C.kids(st)[0]).get("referencedDecl") or {}).get("name")
        elif st.get("kind") == "DeclStmt":
            for v in C.walk(st):
                if v.get("kind") == "VarDecl" and any(x is acq for x in C.walk(v)):
                    var = v.get("name")
        else:
            # out-parameter form: getifaddrs(&ifaddr)
            for a in C.call_args(acq):
                core = C.strip_all(a)
                if core.get("kind") == "UnaryOperator" and core.get("opcode") == "&":
                    var = (C.strip_all(C.kids(core)[0]).get("referencedDecl") or {}).get("name")
        in_test = start.kind == "test"
        # states: "held" | "null" | "released"
        seen = set()
        work = []
        if in_test:
            # if (acquire(...) == -1 / != 0): the true branch is the failure branch
            for s in start.succ:
                fail = _failure_polarity(start.ast)
                stt = "null" if (s.kind == "branch" and s.pol == fail) else "held"
                work.append((s, stt))
        else:
            for s in start.succ:
                work.append((s, "held"))
        while work:
            n, stt = work.pop()
            if (n.id, stt) in seen:
                continue
            seen.add((n.id, stt))
            if n.kind == "branch" and var is not None:
                nt = null_test(n.cond, var)
                if nt != 0:
                    cond_true_means_null = nt == 1
                    branch_null = cond_true_means_null == bool(n.pol)
                    if stt == "held" and branch_null and _direct_var_test(n.cond, var):
                        stt = "null"
                    elif stt == "null" and not branch_null:
                        continue       # infeasible
                    elif stt == "released" and False:
                        pass
            rel = call_in(n, release) or any(call_in(n, r) for r in extra_release)
            if rel and n.kind != "branch":
                if stt == "released":
                    doubles.append(n.ast.get("_line", 0))
                elif stt == "held":
                    stt = "released"
                elif stt == "null":
                    stt = "released"
            if var is not None and n.kind == "stmt" and _assigns_null(n.ast, var):
                if stt == "held":
                    leaks.append(("overwritten while held", n.ast.get("_line", 0)))
                stt = "null"
            if call_in(n, acquire) is not None and n.kind != "branch":
                if stt == "held":
                    leaks.append(("re-acquired while held", n.ast.get("_line", 0)))
                continue            # handled from that site
            if n.kind == "return":
                if stt == "held":
                    leaks.append(("return", n.ast.get("_line", 0)))
                continue
            if n is cfg.exit:
                if stt == "held":
                    leaks.append(("end of function", 0))
                continue
            for s in n.succ:
                work.append((s, stt))
    return sites, leaks, doubles


def _assigns_null(st, var):
    if st.get("kind") != "BinaryOperator" or st.get("opcode") != "=":
        return False
    lhs, rhs = C.kids(st)
    if (C.strip_all(lhs).get("referencedDecl") or {}).get("name") != var:
        return False
    return C.int_value(rhs) in (0, -1) or \
        any(x.get("castKind") == "NullToPointer" for x in C.walk(rhs))


def _failure_polarity(cond):
    """For `acquire() == -1` / `acquire() != 0` / `acquire()`: which branch
    polarity is the failure branch."""
    c = C.strip(cond)
    if c.get("kind") == "BinaryOperator" and c.get("opcode") == "==":
        v = C.int_value(C.kids(c)[1])
        return True if v in (-1,) else (False if v == 0 else True)
    if c.get("kind") == "BinaryOperator" and c.get("opcode") == "!=":
        v = C.int_value(C.kids(c)[1])
        return True if v == 0 else False
    if c.get("kind") == "BinaryOperator" and c.get("opcode") == "<":
        return True
    return True


def _direct_var_test(cond, var):
    return True


# --------------------------------------------------------------------------
# pointer nullness (origins) - used for "Py_DECREF on a pointer that is still
# NULL on this path"
def _refine(cond, pol, out):
    """Collect {var: 'null'|'nonnull'} facts that hold when `cond` evaluates
    to `pol`."""
    c = C.strip(cond) if cond else None
    if c is None:
        return
    k = c.get("kind")
    if k == "BinaryOperator" and c.get("opcode") == "||":
        if pol is False:
            for x in C.kids(c):
                _refine(x, False, out)
        return
    if k == "BinaryOperator" and c.get("opcode") == "&&":
        if pol is True:
            for x in C.kids(c):
                _refine(x, True, out)
        return
    if k == "UnaryOperator" and c.get("opcode") == "!":
        _refine(C.kids(c)[0], not pol, out)
        return
    if k == "BinaryOperator" and c.get("opcode") in ("==", "!="):
        a, b = C.kids(c)
        for x, y in ((a, b), (b, a)):
            nm = (C.strip_all(x).get("referencedDecl") or {}).get("name")
            isnull = C.int_value(y) == 0 or any(
                z.get("castKind") == "NullToPointer" for z in C.walk(y))
            if nm and isnull:
                eq = c.get("opcode") == "=="
                out[nm] = "null" if eq == pol else "nonnull"
        return
    if k == "DeclRefExpr":
        nm = (c.get("referencedDecl") or {}).get("name")
        if nm:
            out[nm] = "nonnull" if pol else "null"


def _is_null_expr(e):
    return C.int_value(e) == 0 or (
        C.strip_all(e).get("kind") in ("IntegerLiteral", "GNUNullExpr", "CXXNullPtrLiteralExpr")
        and C.int_value(e) in (0, None)) or any(
        z.get("castKind") == "NullToPointer" for z in C.walk(e)) and \
        C.strip_all(e).get("kind") in ("IntegerLiteral", "ParenExpr", "CStyleCastExpr",
                                       "ImplicitCastExpr")


def null_deref_sites(fn, deref_funcs=("Py_DECREF", "Py_INCREF"), types=("PyObject *", "struct _object *")):
    """[(var, line, callee)] where a pointer local reaches `callee(var)` while it
    may still hold the NULL it was explicitly given (declaration initialiser or
    assignment) on some path - callee dereferences its argument."""
    cfg = CCFG(fn)
    tracked = set()
    init = {}
    for n in C.walk(fn):
        if n.get("kind") == "VarDecl" and any(t in C.qtype(n) for t in types):
            tracked.add(n.get("name"))
            ks = C.kids(n)
            if ks and _is_null_expr(ks[-1]):
                init[n.get("name")] = frozenset(["null0"])
            elif ks:
                init[n.get("name")] = frozenset(["val"])
            else:
                init[n.get("name")] = frozenset(["uninit"])
    if not tracked:
        return []
    # states flow along edges; declarations are processed where they occur
    IN = {}
    work = [(cfg.entry, {})]
    reports = {}

    def join(a, b):
        out = dict(a)
        for k, v in b.items():
            out[k] = out.get(k, frozenset()) | v
        return out
    steps = 0
    while work and steps < 20000:
        steps += 1
        n, st = work.pop()
        old = IN.get(n.id)
        new = st if old is None else join(old, st)
        if old is not None and new == old:
            continue
        IN[n.id] = new
        cur = dict(new)
        if n.kind == "branch":
            facts = {}
            _refine(n.cond, bool(n.pol), facts)
            dead = False
            for v, f in facts.items():
                if v in tracked and v in cur:
                    if f == "nonnull":
                        rest = cur[v] - {"null0"}
                        if not rest and cur[v]:
                            dead = True        # only NULL reaches here: infeasible
                        cur[v] = rest or frozenset(["val"])
                    else:
                        cur[v] = frozenset(["null0"])
            if dead:
                continue
        elif n.ast is not None and n.kind not in ("label", "goto"):
            a = n.ast
            if n.kind in ("stmt", "return", "test"):
                # uses first (arguments are evaluated before any assignment here)
                for x in C.walk(a):
                    if x.get("kind") == "CallExpr" and C.callee(x) in deref_funcs:
                        args = C.call_args(x)
                        if args:
                            v = (C.strip_all(args[0]).get("referencedDecl") or {}).get("name")
                            if v in tracked and "null0" in cur.get(v, ()):
                                reports[(v, x.get("_line", 0), C.callee(x))] = True
                for x in C.walk(a):
                    if x.get("kind") == "VarDecl" and x.get("name") in tracked:
                        cur[x.get("name")] = init[x.get("name")]
                    elif x.get("kind") == "BinaryOperator" and x.get("opcode") == "=":
                        l, r = C.kids(x)
                        v = (C.strip_all(l).get("referencedDecl") or {}).get("name")
                        if v in tracked and C.strip_all(l).get("kind") == "DeclRefExpr":
                            cur[v] = frozenset(["null0"]) if _is_null_expr(r) else frozenset(["val"])
        for s in n.succ:
            work.append((s, cur))
    return sorted(reports)
