"""Evaluation of a small PURE function (ints, strings, tuples, dict literals) on
concrete arguments, by walking its AST - used to decide finite tables
exhaustively (e.g. open-flags -> mode string for every access mode).  Supports
assignments, if/elif/else, return, raise, and the expression forms below;
anything else raises Outside (the caller then reports "not decided", never a
verdict).  No psutil code is imported or executed."""

import ast

from .pyrepo import dotted


class Outside(Exception):
    pass


class _Continue(Exception):
    pass


class _Break(Exception):
    pass


class Raised(Exception):
    def __init__(self, name):
        super().__init__(name)
        self.name = name


_STR_METHODS = {"replace", "strip", "lstrip", "rstrip", "lower", "upper", "startswith",
                "endswith", "split", "join", "format", "rjust", "ljust", "zfill"}


class TextFile:
    """What open_binary()/open_text() hand out, over fixed content."""

    def __init__(self, lines):
        self.lines = list(lines)

    def readline(self):
        return self.lines.pop(0) if self.lines else type(self.lines[0])() if self.lines else b""

    def read(self):
        out = (b"" if (self.lines and isinstance(self.lines[0], bytes)) else "").join(self.lines) \
            if self.lines else b""
        self.lines = []
        return out

    def readlines(self):
        out, self.lines = self.lines, []
        return out

    def __iter__(self):
        while self.lines:
            yield self.lines.pop(0)


NATIVES = {}        # name -> python callable, set by the caller for the duration of a run


def run_function(fnode, args, consts=None, funcs=None, natives=None):
    """(return value, final local environment) of fnode(*args)."""
    global NATIVES
    old = NATIVES
    NATIVES = dict(natives or {})
    try:
        consts = consts or {}
        funcs = funcs or {}
        params = [a.arg for a in fnode.args.args]
        env = dict(zip(params, args))
        r = block(fnode.body, env, consts, funcs, 0)
        return (r[1] if r is not None else None), env
    finally:
        NATIVES = old


def call_function(fnode, args, consts=None, funcs=None, depth=0):
    """Value returned by fnode(*args).  consts: dotted name -> value.
    funcs: name -> FunctionDef for helpers that may be called."""
    consts = consts or {}
    funcs = funcs or {}
    if depth > 6:
        raise Outside("recursion")
    params = [a.arg for a in fnode.args.args]
    if len(params) < len(args):
        raise Outside("arity")
    env = dict(zip(params, args))
    defaults = fnode.args.defaults
    for p, d in zip(params[len(params) - len(defaults):], defaults):
        if p not in env:
            env[p] = ev(d, env, consts, funcs, depth)
    if set(params) - set(env):
        raise Outside("missing argument")
    r = block(fnode.body, env, consts, funcs, depth)
    return r[1] if r is not None else None


def block(stmts, env, consts, funcs, depth):
    for st in stmts:
        if isinstance(st, ast.Expr):
            if not isinstance(st.value, ast.Constant):
                ev(st.value, env, consts, funcs, depth)
            continue
        if isinstance(st, (ast.Pass, ast.Global, ast.Nonlocal)):
            continue
        if isinstance(st, ast.With):
            for it in st.items:
                v = ev(it.context_expr, env, consts, funcs, depth)
                if it.optional_vars is not None:
                    assign(it.optional_vars, v, env)
            r = block(st.body, env, consts, funcs, depth)
            if r is not None:
                return r
            continue
        if isinstance(st, ast.For) and not st.orelse:
            broke = False
            for item in list(ev(st.iter, env, consts, funcs, depth)):
                assign(st.target, item, env)
                try:
                    r = block(st.body, env, consts, funcs, depth)
                except _Continue:
                    continue
                except _Break:
                    break
                if r is not None:
                    return r
            continue
        if isinstance(st, ast.Continue):
            raise _Continue()
        if isinstance(st, ast.Break):
            raise _Break()
        if isinstance(st, ast.Assign):
            v = ev(st.value, env, consts, funcs, depth)
            for t in st.targets:
                assign(t, v, env)
            continue
        if isinstance(st, ast.AugAssign) and isinstance(st.target, ast.Name):
            cur = ev(ast.Name(st.target.id, ast.Load()), env, consts, funcs, depth)
            v = ev(st.value, env, consts, funcs, depth)
            env[st.target.id] = binop(st.op, cur, v)
            continue
        if isinstance(st, ast.If):
            c = ev(st.test, env, consts, funcs, depth)
            r = block(st.body if c else st.orelse, env, consts, funcs, depth)
            if r is not None:
                return r
            continue
        if isinstance(st, ast.Return):
            return ("return", ev(st.value, env, consts, funcs, depth) if st.value else None)
        if isinstance(st, ast.Raise):
            nm = None
            if isinstance(st.exc, ast.Call):
                nm = dotted(st.exc.func)
            elif st.exc is not None:
                nm = dotted(st.exc)
            raise Raised((nm or "?").split(".")[-1])
        if isinstance(st, ast.Try):
            try:
                r = block(st.body, env, consts, funcs, depth)
            except Raised as e:
                for h in st.handlers:
                    names = [dotted(x) for x in (h.type.elts if isinstance(h.type, ast.Tuple)
                                                 else [h.type])] if h.type is not None else None
                    if names is None or e.name in [(n or "").split(".")[-1] for n in names] \
                            or "Exception" in names:
                        r = block(h.body, env, consts, funcs, depth)
                        break
                else:
                    raise
                if r is not None:
                    return r
                continue
            if r is not None:
                return r
            r = block(st.orelse, env, consts, funcs, depth)
            if r is not None:
                return r
            continue
        if isinstance(st, ast.Assert):
            continue
        raise Outside(type(st).__name__)
    return None


def assign(t, v, env):
    if isinstance(t, ast.Name):
        env[t.id] = v
    elif isinstance(t, (ast.Tuple, ast.List)):
        vals = list(v)
        if len(vals) != len(t.elts):
            raise Raised("ValueError")
        for a, b in zip(t.elts, vals):
            assign(a, b, env)
    elif isinstance(t, ast.Subscript) and isinstance(t.value, ast.Name) and t.value.id in env:
        raise Outside("subscript store")
    else:
        raise Outside("assignment target")


def binop(op, a, b):
    try:
        if isinstance(op, ast.BitAnd):
            return a & b
        if isinstance(op, ast.BitOr):
            return a | b
        if isinstance(op, ast.BitXor):
            return a ^ b
        if isinstance(op, ast.Add):
            return a + b
        if isinstance(op, ast.Sub):
            return a - b
        if isinstance(op, ast.Mult):
            return a * b
        if isinstance(op, ast.LShift):
            return a << b
        if isinstance(op, ast.RShift):
            return a >> b
        if isinstance(op, ast.Mod):
            return a % b
        if isinstance(op, ast.FloorDiv):
            return a // b
    except TypeError:
        raise Raised("TypeError") from None
    except ZeroDivisionError:
        raise Raised("ZeroDivisionError") from None
    raise Outside(type(op).__name__)


def ev(e, env, consts, funcs, depth):
    if isinstance(e, ast.Constant):
        return e.value
    if isinstance(e, ast.Name):
        if e.id in env:
            return env[e.id]
        if e.id in consts:
            return consts[e.id]
        if e.id in ("True", "False", "None"):
            return {"True": True, "False": False, "None": None}[e.id]
        raise Outside(f"name {e.id}")
    if isinstance(e, ast.Attribute):
        d = dotted(e)
        if d in consts:
            return consts[d]
        raise Outside(f"attribute {d}")
    if isinstance(e, ast.BinOp):
        return binop(e.op, ev(e.left, env, consts, funcs, depth), ev(e.right, env, consts, funcs, depth))
    if isinstance(e, ast.UnaryOp):
        v = ev(e.operand, env, consts, funcs, depth)
        if isinstance(e.op, ast.Not):
            return not v
        if isinstance(e.op, ast.USub):
            return -v
        if isinstance(e.op, ast.Invert):
            return ~v
        raise Outside("unary")
    if isinstance(e, ast.BoolOp):
        r = None
        for x in e.values:
            r = ev(x, env, consts, funcs, depth)
            if isinstance(e.op, ast.And) and not r:
                return r
            if isinstance(e.op, ast.Or) and r:
                return r
        return r
    if isinstance(e, ast.Compare):
        left = ev(e.left, env, consts, funcs, depth)
        for op, c in zip(e.ops, e.comparators):
            right = ev(c, env, consts, funcs, depth)
            t = type(op)
            ok = {ast.Eq: lambda: left == right, ast.NotEq: lambda: left != right,
                  ast.Lt: lambda: left < right, ast.LtE: lambda: left <= right,
                  ast.Gt: lambda: left > right, ast.GtE: lambda: left >= right,
                  ast.Is: lambda: left is right, ast.IsNot: lambda: left is not right,
                  ast.In: lambda: left in right, ast.NotIn: lambda: left not in right}[t]()
            if not ok:
                return False
            left = right
        return True
    if isinstance(e, ast.IfExp):
        return ev(e.body if ev(e.test, env, consts, funcs, depth) else e.orelse,
                  env, consts, funcs, depth)
    if isinstance(e, (ast.Tuple, ast.List, ast.Set)):
        vals = [ev(x, env, consts, funcs, depth) for x in e.elts]
        return tuple(vals) if isinstance(e, ast.Tuple) else (vals if isinstance(e, ast.List)
                                                              else set(vals))
    if isinstance(e, ast.Dict):
        return {ev(k, env, consts, funcs, depth): ev(v, env, consts, funcs, depth)
                for k, v in zip(e.keys, e.values)}
    if isinstance(e, ast.Subscript):
        base = ev(e.value, env, consts, funcs, depth)
        if isinstance(e.slice, ast.Slice):
            lo = ev(e.slice.lower, env, consts, funcs, depth) if e.slice.lower else None
            hi = ev(e.slice.upper, env, consts, funcs, depth) if e.slice.upper else None
            return base[lo:hi]
        k = ev(e.slice, env, consts, funcs, depth)
        try:
            return base[k]
        except KeyError:
            raise Raised("KeyError") from None
        except IndexError:
            raise Raised("IndexError") from None
    if isinstance(e, ast.JoinedStr):
        return "".join(str(ev(v.value, env, consts, funcs, depth))
                       if isinstance(v, ast.FormattedValue) else v.value for v in e.values)
    if isinstance(e, ast.Call):
        args = [ev(a, env, consts, funcs, depth) for a in e.args]
        if isinstance(e.func, ast.Attribute) and e.func.attr in _STR_METHODS:
            recv = ev(e.func.value, env, consts, funcs, depth)
            if isinstance(recv, (str, bytes)):
                return getattr(recv, e.func.attr)(*args)
        if isinstance(e.func, ast.Attribute) and e.func.attr in _STR_METHODS | {"decode", "encode"}:
            recv = ev(e.func.value, env, consts, funcs, depth)
            if isinstance(recv, (str, bytes)):
                return getattr(recv, e.func.attr)(*args)
        if isinstance(e.func, ast.Attribute) and e.func.attr in ("append", "extend", "insert", "pop",
                                                                   "index", "count"):
            recv = ev(e.func.value, env, consts, funcs, depth)
            if isinstance(recv, list):
                try:
                    return getattr(recv, e.func.attr)(*args)
                except (IndexError, ValueError) as x:
                    raise Raised(type(x).__name__) from None
        if isinstance(e.func, ast.Attribute) and e.func.attr in ("readline", "read", "readlines"):
            recv = ev(e.func.value, env, consts, funcs, depth)
            if isinstance(recv, TextFile):
                return getattr(recv, e.func.attr)(*args)
        if isinstance(e.func, ast.Attribute) and e.func.attr == "get" and len(args) in (1, 2):
            recv = ev(e.func.value, env, consts, funcs, depth)
            if isinstance(recv, dict):
                return recv.get(*args)
        nm = dotted(e.func)
        if nm in ("int", "str", "len", "bool", "abs", "min", "max", "tuple", "list", "oct", "hex"):
            return {"int": int, "str": str, "len": len, "bool": bool, "abs": abs, "min": min,
                    "max": max, "tuple": tuple, "list": list, "oct": oct, "hex": hex}[nm](*args)
        if nm in NATIVES:
            return NATIVES[nm](*args)
        if nm in ("range", "enumerate", "zip", "sorted", "set", "sum", "float"):
            return {"range": lambda *a: list(range(*a)), "enumerate": lambda x: list(enumerate(x)),
                    "zip": lambda *a: list(zip(*a)), "sorted": sorted, "set": set, "sum": sum,
                    "float": float}[nm](*args)
        if nm in funcs:
            return call_function(funcs[nm], args, consts, funcs, depth + 1)
        raise Outside(f"call {nm}")
    raise Outside(type(e).__name__)


def module_constants(mod_assigns, consts=None):
    """Module-level names bound ONCE to an expression this evaluator can evaluate
    from constants (literal tables, flag arithmetic): name -> value.
    mod_assigns: {name: [value expr, ...]} (ModuleInfo.assigns)."""
    out = dict(consts or {})
    for _ in range(3):                       # tables may refer to earlier constants
        for name, vals in mod_assigns.items():
            if name in out or len(vals) != 1:
                continue
            try:
                out[name] = ev(vals[0], {}, out, {}, 0)
            except (Outside, Raised, Exception):  # noqa: BLE001
                continue
    return out
