"""What MANIFEST.json claims, per property. Only implemented rules are claimed."""

NOTES = (
    "Technique family: static analysis only. Every check re-parses /repo's "
    "working tree (Python ast, clang JSON AST for the Linux C sources) and never "
    "imports or runs psutil. A claimed property means: the named structural "
    "clauses - each a necessary condition of the behaviour - are decided for "
    "every call site / path / handler / table row on the current tree; the "
    "behavioural statement as a whole is not proved. exit 2 + ANALYSIS-ERROR "
    "means the analysis could not give a verdict (never a VIOLATION)."
)

CLAIMED = {}

NOT_APPLICABLE = {}
