"""What MANIFEST.json claims, per property. Only implemented rules are claimed."""

NOTES = (
    "Technique family: static analysis only. Every check re-parses /repo's working tree (Python ast, clang JSON AST for the Linux C sources) and never imports or runs psutil. A claimed property means: the named structural clauses - each a necessary condition of the behaviour - are decided for every call site / path / handler / table row on the current tree; the behavioural statement as a whole is not proved. exit 2 + ANALYSIS-ERROR means the analysis could not give a verdict (never a VIOLATION)."
)

CLAIMED = {'C01': {'text': 'Decides, for every public psutil.Process/Popen method and public module function '
                 'on each of 8 platform configurations, that no call-graph path reaches a '
                 'signal/setter sink (os.kill, setpriority, ioprio/affinity/rlimit setters, '
                 'Windows kill/suspend/priority natives) without executing '
                 'self._raise_if_pid_reused(); that every os.kill target is provably != 0 and >= 0 '
                 '(guards, callers, single-writer invariant of the pid attribute); that sinks '
                 "receive self.pid and the caller's value (SIGSTOP/SIGCONT/SIGTERM/SIGKILL for the "
                 'fixed-signal methods); that _gone/_pid_reused are sticky; that the guard '
                 'compares identities; and that Popen cannot bypass it. Necessary structural '
                 'conditions only: the check-to-kill window and creation-time granularity are '
                 'run-time facts and not decided.',
         'note': "Trusted: Python's ast; my CFG/dominator construction; the sink table (natives "
                 'named set*/kill/suspend/resume, os.kill, resource.prlimit with 3 args); callee '
                 "resolution of psutil's idioms (self._proc.X, _psplatform.X, decorators ignored).",
         'technique': 'CFG dominance + call-graph must-pass-through, backward precondition '
                      'propagation, def-use'},
 'C03': {'text': 'Decides that no FileNotFoundError/ProcessLookupError/PermissionError raised by '
                 'any per-process OS access site reachable from a Linux Process method (platform '
                 'layer and public front end) escapes untranslated: an exception-escape fix-point '
                 "over the resolved call graph with Python's handler semantics, decorators "
                 "analysed as their wrappers. The translator's own table is evaluated class by "
                 'class (EACCES->AccessDenied, ESRCH/ENOENT->Zombie|NoSuchProcess, re-raise only '
                 'under the liveness probe), swallow-and-continue scanners are checked '
                 'path-sensitively for _raise_if_not_alive(), empty-content returns for '
                 '_raise_if_zombie(), and process_iter/ppid_map/is_running for their per-PID '
                 "policy. Parse errors on truncated content and 'every later query raises "
                 "NoSuchProcess' are not decided. Also: the liveness probe used after ENOENT looks "
                 'at <pid>/stat, not at the <pid> directory (which outlives its entries during '
                 'teardown). Per-descriptor / per-thread accesses: the except clause that '
                 'actually receives ENOENT resp. ESRCH (first match, innermost try first) is '
                 'evaluated for that errno and must not re-raise it. In the public Process class '
                 'a clause covering NoSuchProcess around a query on self that does not re-raise '
                 'must be one of three confirmed instances (identified by classes caught and '
                 'queries made).',
         'note': 'Trusted: primitive raise table '
                 '(open/listdir/readlink/stat/kill/prlimit/natives), class hierarchy table, callee '
                 'resolution; fault model limited to errno failures and zombie state as the '
                 'property states.',
         'technique': 'exception-escape effect analysis over the call graph + path-sensitive CFG '
                      'dataflow'},
 'C05': {'text': 'Decides the structural conditions that make the tree walk right on every ppid '
                 'table: visited-set discipline dominating every work-list push (termination on '
                 'cycles), creation-time ordering and own-PID exclusion control every result '
                 'append, the identity guard precedes the table read (children) and the parent '
                 'lookup (via ppid), parent() stops at the lowest PID and returns the parent only '
                 'if it is not younger, vanished children are skipped. Real recycling/time '
                 'granularity is not decided. Also: parent() reaches Process(ppid) for ppid == 0 '
                 "(only None means 'no parent'). The handler that skips a vanished child sits "
                 'inside the loop over the candidates (one vanished child does not drop its '
                 'siblings).',
         'note': 'Trusted: CFG/dominators; recognition of the work-list idiom (while W: W.pop() '
                 '... W.append()).',
         'technique': 'CFG dominance / control dependence'},
 'C15': {'text': 'Decides: negative timeouts rejected before waiting; exit code memo '
                 'single-writer; in wait_pid a status is returned only under retpid != 0 and None '
                 'only after pid_exists() turned false; EINTR re-polls; the deadline test precedes '
                 'every sleep when a timeout is given and TimeoutExpired(timeout, pid) is raised '
                 'only under clock >= deadline; the poll interval is 1e-4 .. 0.04 by induction on '
                 "its only update; WIFEXITED/WIFSIGNALED decoding; wait_procs' gone/alive "
                 'bookkeeping. How late a poll fires is a timing fact and is not decided. Also: on '
                 'Windows one deadline covers the native wait and the PID-lingering poll (no path '
                 'from the native wait to a store of the deadline). psutil.Popen.wait() writes the '
                 "status it obtained back into the wrapped subprocess.Popen's returncode.",
         'note': 'Trusted: CFG/dominators; sign-domain evaluation of guard predicates; monotonic '
                 'clock.',
         'technique': 'CFG dominance, path queries, interval induction'},
 'C16': {'text': 'Decides: activation/deactivation pairing through try/finally in oneshot() and in '
                 'all six platform modules (activated = deactivated = decorated), only memoised '
                 'readers open the per-process stat/status/smaps records, the block runs under the '
                 "object's lock and a nested block is a no-op, the memoiser's three tolerance "
                 "branches, as_dict's validation-before-query, key set and exception policy. "
                 'Thread interleavings are not explored. Read-once sources are resolved through '
                 'string building and parameters (a reader opening <pid>/{fname} called with '
                 "'smaps' counts).",
         'note': 'Trusted: AST shape recognition of the memoiser; template matching of f-string '
                 'procfs paths.',
         'technique': 'typestate pairing, who-may-open, handler tables'},
 'C02': {'text': 'Decides that __eq__/__hash__/__ne__ are functions of the one identity tuple, '
                 'that the tuple and the cached creation time are never re-bound after '
                 'construction, and - by a transitive global-read / call effect analysis of '
                 '_get_ident() with constant-argument context - that the Linux identity reads no '
                 'module global that is re-assigned after import and no wall-clock source '
                 "(boot_time, time.time). is_running()'s sticky early-False and publication of "
                 'recycled PIDs. Start-time resolution and real recycling are not decided. Also: '
                 'the gone latch is never set on a path that goes on to report ZombieProcess (a '
                 'zombie is still listed), and a recycled verdict is published to process_iter() '
                 'unconditionally.',
         'note': 'Trusted: the wall-clock source table (boot_time <- btime, time.time); callee '
                 'resolution; one level of constant-argument context.',
         'technique': 'effect analysis (transitive global reads/calls), single-writer attribute '
                      'checks'},
 'C04': {'text': 'Decides: pids()/process_iter() order by def-use from sorted(); Linux pids() '
                 'digit filter; pid_exists() totality for ints via exception-escape analysis '
                 '(per-process errno and argument-conversion origins), negative/zero handling by '
                 "dominance; process_iter()'s cache steps (copy, drop gone, drain recycled, add "
                 'new, NoSuchProcess removes, re-bind in a finally enclosing every yield, attrs -> '
                 '.info, cache_clear) and absence of in-place mutation of the published map. Real '
                 'table changes and thread schedules are not exercised. Also: on NetBSD/OpenBSD '
                 'pid_exists() lets `pid in pids()` decide in the direction in which kill(pid, 0) '
                 'is known to disagree with the listing; is_running() publishes every recycled '
                 "verdict whatever the cache holds. Nothing but process_iter()'s own drain removes "
                 'recycled-PID flags.',
         'note': 'Trusted: primitive raise table; CFG/dominators; recognition of the '
                 'copy-then-rebind idiom.',
         'technique': 'def-use, exception-escape analysis, CFG dominance, try/finally enclosure'},
 'C10': {'text': 'Decides: every access to the three wrap-history maps holds the instance lock '
                 '(lexically or at every call site); the update rule has the documented shape '
                 '(reminder += OLD exactly under new < old, keyed by (device, index); out = new + '
                 'reminder; raw tuple for first call / new key; new snapshot becomes the baseline '
                 'on every later path); dead devices purged before comparing; cache_clear covers '
                 'all maps; distinct constant history names bound consistently by the cache_clear '
                 'partials; nowrap=False bypass. From that shape monotonicity follows by the '
                 'inductive step recorded as an assumption; schedules are not explored. Also: no '
                 'library function calls a cache_clear of the wrapper (the history is forgotten '
                 "only at the caller's request).",
         'note': 'Trusted: non-negative raw counters; the rule-template matcher; lock coverage is '
                 'lexical + call-site based.',
         'technique': 'lock-coverage analysis, CFG dominance, rule-template match'},
 'C06': {'text': 'Decides, by abstract interpretation of the Linux parsers into provenance terms '
                 '(file template / cut position / split / column), that every parser of the `pid '
                 "(comm) ...` record cuts at the LAST ')', that each public field (cpu_times, "
                 'ppid, status, terminal, create_time, cpu_num, threads, ppid_map) reads the '
                 'proc(5) column assigned to it, that tick counters are divided by CLOCK_TICKS '
                 'exactly once and create_time adds seconds to seconds (unit analysis), that the '
                 "state-letter table covers the kernel's letters with the documented constants, "
                 'and - by static analysis of the regex literals (re._parser: anchoring, minimum '
                 'width vs. TASK_COMM_LEN) - that no status-file regex can match inside the Name: '
                 'line. Byte-level decoding of names is not decided.',
         'note': 'Trusted: oracle tables transcribed from proc(5) / fs/proc/array.c '
                 "(sa/oracles/linux.py); the interpreter's supported subset (fails closed with "
                 'ANALYSIS-ERROR outside it); summaries of _common I/O helpers.',
         'technique': 'abstract interpretation (provenance terms, units), regex-literal static '
                      'analysis, table agreement'},
 'C07': {'text': 'Decides, by abstract interpretation per kernel configuration (7-10 CPU fields), '
                 "that the scputimes fields are the kernel's columns in kernel order read from the "
                 'right /proc/stat lines and divided by CLOCK_TICKS; that '
                 'total/busy/deltas/cpu_percent have exactly the documented rational forms '
                 '(compared by cross-multiplication) and that 0 <= busy <= total follows from sign '
                 "analysis over clipped deltas; cpu_times_percent's per-field share, rounding and "
                 'clamp; Process.cpu_percent == 100*dCPU/dWall with the CPU-count factors '
                 'cancelling, 0.0 first call, ValueError first, samples stored; per-thread keys of '
                 'the four history tables. Known finding: the max(1, total) divisor of '
                 'cpu_times_percent. Wall-clock behaviour is not decided.',
         'note': 'Trusted: proc(5) cpu line layout; interpreter subset; clipped deltas and kernel '
                 'counters non-negative.',
         'technique': 'abstract interpretation (provenance, polynomial forms, sign analysis)'},
 'C08': {'text': 'Decides every svmem/sswap field against the documented formula as a polynomial '
                 'over /proc/meminfo keys (kB*1024), including the used<0 fallback, percent via '
                 'usage_percent, MemAvailable absent-or-zero fallback and the two clamps, the '
                 'KeyError policy and warning, the watermark-based estimate (pages*PAGESIZE, two '
                 'min terms) and the unit of the swap-in/out page counters. Magnitudes and real '
                 'kernels are not exercised. Also: no value looked up with .get() reaches '
                 'arithmetic where it can still be None (decided on the interpreted result terms '
                 'of virtual_memory() and swap_memory()). /proc/zoneinfo that cannot be opened for '
                 'any OSError selects the simple fallback.',
         'note': 'Trusted: meminfo in kB, vmstat/zoneinfo in pages; interpreter subset.',
         'technique': 'abstract interpretation (provenance, polynomial forms, units)'},
 'C09': {'text': 'Decides, through the public front end and once per diskstats line layout '
                 '(14/18/20/7 fields, sysfs fallback; 15 only for totality), that every '
                 'snetio/sdiskio field is the kernel column the documentation assigns to it, that '
                 'only sector counters are scaled (by DISK_SECTOR_SIZE = 512), that unknown '
                 "layouts are rejected, that the interface name ends at the LAST ':', that totals "
                 'are field-wise sums and partitions are skipped exactly when not perdisk, None/{} '
                 "when empty, and disk_usage's four formulas. Counter magnitudes are not "
                 'exercised. Also: every record yielded by the per-line diskstats loop is built '
                 'from names assigned on every path of that iteration (no counter inherited from '
                 'the previous line); on macOS percent is computed from the corrected `used` that '
                 "is reported. is_storage_device() probes /sys/block/<name> with '/' translated to "
                 "'!' (sysfs naming).",
         'note': 'Trusted: iostats.rst / net/dev header tables (sa/oracles/linux.py); interpreter '
                 "subset; _wrap_numbers is bypassed (nowrap=False) - its slot identity is C10's.",
         'technique': 'abstract interpretation per configuration (provenance, forms), control '
                      'dependence'},
 'C13': {'text': 'Decides statm column/units for memory_info, key selection + kB*1024 + tuple '
                 'order of both smaps parsers and the roll-up fallback handler, line-anchoring of '
                 'the smaps regexes, the memory_maps tuple against the named-tuple fields and '
                 'smaps keys (bounded header split, [anon]), the grouping slots and tuple '
                 "compatibility on every platform, and memory_percent's validation order and form. "
                 'Also: a block generator that emits one mapping behind its input yields once more '
                 'after its loop (the last mapping is listed). No unbounded whitespace split can '
                 "reach the mapping's path; every memtype accepted by memory_percent() is looked "
                 "up on a record that has that field (evaluated over pfullmem's fields).",
         'note': 'Trusted: proc(5) statm/smaps tables; interpreter subset.',
         'technique': 'abstract interpretation (provenance, forms), regex-literal analysis, table '
                      'agreement'},
 'C14': {'text': 'Decides exhaustiveness of the access-mode table over the values its mask can '
                 'produce, the (access, O_APPEND) -> mode table by constant-folded evaluation over '
                 'the finite domain, the regular-file/absolute-path filter as control dependence '
                 'of the append, the errno skip policy, provenance of position/flags(base '
                 '8)/fd/path, num_fds, and the /proc/<pid>/io key table with its tolerance of '
                 "blank/malformed lines. Descriptors closing mid-scan are C03's. Also: a blank or "
                 'malformed /proc/<pid>/io line neither ends the scan (break/return) nor fails it. '
                 'isfile_strict() answers False for every OSError of stat() other than a '
                 'permission failure.',
         'note': 'Trusted: os.O_* values for Linux (table in absint.OS_CONSTS), fdinfo layout.',
         'technique': 'finite-domain exhaustiveness, abstract interpretation, control dependence'},
 'C11': {'text': 'Decides agreement of the Linux kind table with _common.conn_tmap (11 kinds, '
                 '(family,type) sets), validation-before-platform in both entry points, the '
                 '/proc/net column of every slot (laddr 1, raddr 2, state 3, inode 9; unix type 4, '
                 'inode 6, path 7 through a bounded split; header skipped; port hexadecimal; port '
                 '0 -> ()), the TCP state table, NONE for non-stream, owner/filter structure and '
                 'the pconn/sconn slot order. Hex/endianness address decoding is not decided. '
                 'Also: the shared record builder of the other platforms chooses sconn/pconn by '
                 '`pid is None`, so a socket held by PID 0 keeps its owner. Both end-points of an '
                 'inet row are decoded whatever the socket type (a connected UDP socket keeps its '
                 'remote address).',
         'note': 'Trusted: /proc/net layouts and tcp_states.h (oracle tables); interpreter subset.',
         'technique': 'table agreement, CFG dominance, abstract interpretation (provenance)'},
 'C12': {'text': "Decides only structural necessary conditions: os.readlink's single call site and "
                 "the NUL / ' (deleted)' clean-up, exe()/cwd() fallback, cmdline's separator "
                 "choice / trailing-separator removal / zombie check, parse_environ_block's "
                 "stop-and-progress rule and its '=' test, the guards of the name() extension and "
                 'of the exe() guess, single-writer of the exe cache. Separator heuristics on real '
                 'argv data and byte decoding are value-level and not decided. Also: name() '
                 'absorbs AccessDenied and ZombieProcess from the cmdline() it consults, answering '
                 "with the kernel's name.",
         'note': 'Trusted: TASK_COMM_LEN = 16; interpreter subset.',
         'technique': 'who-may-call, abstract interpretation, loop-progress rule, control '
                      'dependence'},
 'C17': {'text': "Decides, on clang's type-resolved AST of all 8 Linux translation units (built "
                 "with setup.py's own macros): every "
                 'PyArg_ParseTuple/Py_BuildValue/PyObject_CallFunction format agrees with the '
                 'number and C types of its arguments; fixed-width utmp fields never reach a '
                 'NUL-expecting consumer and every bounded consumer is bounded by sizeof of the '
                 'same member; strncpy/memset/sprintf into fixed arrays are bounded by the '
                 'destination; signed shifts/multiplications of parsed arguments are overflow-free '
                 'on the interval their exiting range checks leave; Py_DECREF/Py_INCREF never '
                 'reach a PyObject* that can still be the NULL it was initialised with (error '
                 'labels); setmntent/socket/CPU_ALLOC/getifaddrs resources are released exactly '
                 'once on every CFG path (goto/label/loops, null-test refinement); the C tuple '
                 'slots agree with suser/sdiskpart/snicaddr and the all=False filter. Necessary '
                 'conditions: not a proof of memory safety, and no sanitizer is run (that is a '
                 'different technique family). Fixed-width record fields may be passed to a helper '
                 'of the extension only if every use of the pointer inside it is length-bounded by '
                 'a parameter that the call binds to sizeof(field). A value shifted into a packed '
                 'kernel field fits the field (ioprio class: 3 bits); the all=False partition '
                 'filter tests the normalised device.',
         'note': "Trusted: clang's parser and type checker, the CPython format-unit table, utmp(5) "
                 'on which members are unterminated, my C CFG construction.',
         'technique': 'type-resolved AST rules (clang JSON), C CFG resource typestate, '
                      'cross-language slot agreement'},
 'C18': {'text': 'Decides that the ValueError checks of ionice/rlimit/cpu_affinity dominate the '
                 'native setter call and hold on sampled boundary values (-1,0,7,8) by evaluating '
                 'the guard expression itself; that cpu_affinity([]) takes the eligible-CPU set; '
                 "that each get/set form passes self.pid and the caller's values to the matching "
                 'native and wraps the result in the documented type; that the C ioprio pack and '
                 'unpack use the same shift and mask and that the affinity sizing loop frees '
                 "before re-allocating and doubles only under the overflow guard. 'Every other "
                 "process unchanged' and the kernel's own behaviour are run-time facts and not "
                 'decided. Also: CPU lists with duplicates select the same CPUs (the front end '
                 'de-duplicates, or no platform mask is built additively). The ValueError path of '
                 'ionice() works for plain-int arguments (messages only format their parameters).',
         'note': 'Trusted: Python ast / clang AST, the constant evaluator for guard predicates, '
                 'native name table.',
         'technique': 'CFG dominance, predicate evaluation, AST constant agreement across C '
                      'macros'},
 'C19': {'text': 'Decides units of every temperature/threshold (m°C/1000, including the '
                 'requirement that a loop-carried value is a unit fixed point), cpufreq kHz/1000, '
                 'the Fahrenheit form, per-entry OSError tolerance of reading-file reads, '
                 'threshold back-fill, battery percent/secsleft forms and the '
                 'UNLIMITED/UNKNOWN/None conventions, cpu_freq mean, cpu_count < 1 -> None. '
                 'Directory layouts of real hardware are not exercised. Also: nothing '
                 'appended/yielded inside a per-sensor or per-CPU loop (Linux sensors, cpu_freq() '
                 "on every platform) can still hold the previous iteration's value; cpufreq "
                 'directories are ordered by CPU number. With fahrenheit=True every reading (0 '
                 'included) is converted; only None stays None.',
         'note': 'Trusted: sysfs ABI units by file suffix; interpreter subset.',
         'technique': 'abstract interpretation (units with loop fixed point, forms), handler '
                      'inventory'},
 'C20': {'text': 'Decides, for the 7 non-Linux platform configurations whose code no test here '
                 'executes: exception-escape coverage of every Process method (no '
                 'ESRCH/EPERM/EACCES - and ENOENT on the procfs platforms - from a call taking the '
                 "object's pid escapes untranslated); the translator matrix evaluated class by "
                 'class per platform incl. the PID-0 clause and (pid, name[, ppid]) payload; '
                 'decorators applied to functions; documented named tuple per method; one-shot map '
                 '<-> C Py_BuildValue slot agreement per #if configuration through a role table; '
                 'no discarded pure-call results in the front end; documentation Availability vs. '
                 'the platform evaluator. Non-Linux C is read textually only. Also: '
                 'NoSuchProcess/AccessDenied are built with (pid, name[, message]) everywhere in '
                 'the platform modules - only ZombieProcess takes a ppid. procfs accesses in '
                 'modules whose wrap_exceptions does not translate ENOENT sit under a local '
                 'translation; the Windows broadcast address is computed for AF_INET and AF_INET6.',
         'note': 'Trusted: translator matrix / role tables in sa/oracles/platforms.py; '
                 "errno<->class mapping; the text extractor's #if evaluator; natives taking the "
                 'pid may raise ESRCH/EPERM/EACCES.',
         'technique': 'exception-escape analysis per platform, table evaluation, cross-language '
                      'slot agreement by text extraction'}}

NOT_APPLICABLE = {}
