"""What MANIFEST.json claims, per property. Only implemented rules are claimed."""

NOTES = (
    "Technique family: static analysis only. Every check re-parses /repo's "
    "working tree (Python ast, clang JSON AST for the Linux C sources) and never "
    "imports or runs psutil. A claimed property means: the named structural "
    "clauses - each a necessary condition of the behaviour - are decided for "
    "every call site / path / handler / table row on the current tree; the "
    "behavioural statement as a whole is not proved. exit 2 + ANALYSIS-ERROR "
    "means the analysis could not give a verdict (never a VIOLATION)."
)

CLAIMED = {
    "C01": {
        "text": "Decides, for every public psutil.Process/Popen method and public "
                "module function on each of 8 platform configurations, that no "
                "call-graph path reaches a signal/setter sink (os.kill, setpriority, "
                "ioprio/affinity/rlimit setters, Windows kill/suspend/priority "
                "natives) without executing self._raise_if_pid_reused(); that every "
                "os.kill target is provably != 0 and >= 0 (guards, callers, "
                "single-writer invariant of the pid attribute); that sinks receive "
                "self.pid and the caller's value (SIGSTOP/SIGCONT/SIGTERM/SIGKILL "
                "for the fixed-signal methods); that _gone/_pid_reused are sticky; "
                "that the guard compares identities; and that Popen cannot bypass "
                "it. Necessary structural conditions only: the check-to-kill window "
                "and creation-time granularity are run-time facts and not decided.",
        "note": "Trusted: Python's ast; my CFG/dominator construction; the sink "
                "table (natives named set*/kill/suspend/resume, os.kill, "
                "resource.prlimit with 3 args); callee resolution of psutil's idioms "
                "(self._proc.X, _psplatform.X, decorators ignored).",
        "technique": "CFG dominance + call-graph must-pass-through, backward "
                     "precondition propagation, def-use",
    },
}

NOT_APPLICABLE = {}
