"""Oracle tables for the non-Linux platform layers (C20).  Sources: psutil's
docs/index.rst (named tuples per method, availability), the property statement
(translator matrix) and the OS record member names (sys/user.h kinfo_proc,
sys/proc_info.h, procfs psinfo_t, SYSTEM_PROCESS_INFORMATION)."""

# method -> documented named tuple (docs/index.rst, Process class)
METHOD_TUPLE = {
    "uids": "puids",
    "gids": "pgids",
    "cpu_times": "pcputimes",
    "memory_info": "pmem",
    "memory_full_info": "pfullmem",
    "num_ctx_switches": "pctxsw",
    "threads": "pthread",
    "io_counters": "pio",
    "open_files": "popenfile",
}

PLATFORM_MODULES = {
    "freebsd": "_psbsd", "openbsd": "_psbsd", "netbsd": "_psbsd",
    "macos": "_psosx", "sunos": "_pssunos", "aix": "_psaix", "windows": "_pswindows",
}

# translator matrix: platform -> {input class: set of (output class, origin)}
# "other errors unchanged"; BSD/Solaris: unexplained OSError on existing PID 0 -> AccessDenied
NSP_Z = {("NoSuchProcess", "explicit"), ("ZombieProcess", "explicit")}
AD = {("AccessDenied", "explicit")}
TRANSLATOR = {
    "_psbsd": {
        "ProcessLookupError": NSP_Z,
        "PermissionError": AD,
        "FileNotFoundError": AD | {("FileNotFoundError", "process")},
        "OSError": AD | {("OSError", "process")},
    },
    "_psosx": {
        "ProcessLookupError": NSP_Z,
        "PermissionError": AD,
        "FileNotFoundError": {("FileNotFoundError", "process")},
        "OSError": {("OSError", "process")},
    },
    "_pssunos": {
        "ProcessLookupError": NSP_Z,
        "FileNotFoundError": NSP_Z,
        "PermissionError": AD,
        "OSError": AD | {("OSError", "process")},
    },
    "_psaix": {
        "ProcessLookupError": NSP_Z,
        "FileNotFoundError": NSP_Z,
        "PermissionError": AD,
        "OSError": {("OSError", "process")},
    },
    "_pswindows": {
        "ProcessLookupError": {("NoSuchProcess", "explicit")},
        "PermissionError": AD,
        # ERROR_ACCESS_DENIED / ERROR_PRIVILEGE_NOT_HELD arrive as plain OSError
        "OSError": AD | {("OSError", "process")},
        "FileNotFoundError": {("FileNotFoundError", "process")},
    },
}
# classes that must never leave a Process method untranslated, per platform
ARMED = {
    "_psbsd": ("ProcessLookupError", "PermissionError"),
    "_psosx": ("ProcessLookupError", "PermissionError"),
    "_pssunos": ("ProcessLookupError", "PermissionError", "FileNotFoundError"),
    "_psaix": ("ProcessLookupError", "PermissionError", "FileNotFoundError"),
    "_pswindows": ("ProcessLookupError", "PermissionError"),
}

# one-shot records: (python module, map name, C file, C function, macro sets, roles)
# roles: map key -> regex that the C argument expression of that slot must match
ONESHOT = [
    ("_psosx", "kinfo_proc_map", "arch/osx/proc.c", "psutil_proc_kinfo_oneshot",
     [{"PSUTIL_OSX": 1}],
     {"ppid": r"e_ppid", "ruid": r"p_ruid", "euid": r"cr_uid", "suid": r"p_svuid",
      "rgid": r"p_rgid", "egid": r"cr_groups", "sgid": r"p_svgid", "ttynr": r"e_tdev",
      "ctime": r"p_starttime", "status": r"p_stat", "name": r"name"}),
    ("_psosx", "pidtaskinfo_map", "arch/osx/proc.c", "psutil_proc_pidtaskinfo_oneshot",
     [{"PSUTIL_OSX": 1}],
     {"cpuutime": r"total_user", "cpustime": r"total_system", "rss": r"resident_size",
      "vms": r"virtual_size", "pfaults": r"pti_faults", "pageins": r"pti_pageins",
      "numthreads": r"threadnum", "volctxsw": r"pti_csw"}),
    ("_psbsd", "kinfo_proc_map", "arch/bsd/proc.c", "psutil_proc_oneshot_info",
     [{"PSUTIL_BSD": 1, "PSUTIL_FREEBSD": 1, "__FreeBSD_version": 1300000},
      {"PSUTIL_BSD": 1, "PSUTIL_FREEBSD": 1, "__FreeBSD_version": 1100000},
      {"PSUTIL_BSD": 1, "PSUTIL_OPENBSD": 1}, {"PSUTIL_BSD": 1, "PSUTIL_NETBSD": 1}],
     {"ppid": r"ppid", "status": r"_stat", "real_uid": r"_ruid", "effective_uid": r"[._]uid\b",
      "saved_uid": r"_svuid", "real_gid": r"_rgid", "effective_gid": r"_groups",
      "saved_gid": r"_sv[ug]id", "ttynr": r"_tdev", "create_time": r"start",
      "ctx_switches_vol": r"nvcsw", "ctx_switches_unvol": r"nivcsw",
      "read_io_count": r"inblock", "write_io_count": r"oublock",
      "user_time": r"utime", "sys_time": r"stime", "ch_user_time": r"(_ch|uctime)",
      "ch_sys_time": r"(_ch|uctime)", "rss": r"rss", "vms": r"vms", "memtext": r"memtext",
      "memdata": r"memdata", "memstack": r"memstack", "cpunum": r"oncpu", "name": r"name"}),
    ("_pssunos", "proc_info_map", "_psutil_sunos.c", "psutil_proc_basic_info",
     [{"PSUTIL_SUNOS": 1}],
     {"ppid": r"pr_ppid", "rss": r"pr_rssize", "vms": r"pr_size", "create_time": r"pr_start",
      "nice": r"pr_nice", "num_threads": r"pr_nlwp", "status": r"pr_state",
      "ttynr": r"pr_ttydev", "uid": r"pr_uid", "euid": r"pr_euid", "gid": r"pr_gid",
      "egid": r"pr_egid"}),
    ("_psaix", "proc_info_map", "_psutil_aix.c", "psutil_proc_basic_info",
     [{"PSUTIL_AIX": 1}],
     {"ppid": r"pr_ppid", "rss": r"pr_rssize", "vms": r"pr_size", "create_time": r"pr_start",
      "nice": r"pr_nice", "num_threads": r"pr_nlwp", "status": r"pr_stat",
      "ttynr": r"pr_ttydev"}),
    ("_pswindows", "pinfo_map", "arch/windows/proc_info.c", "psutil_proc_info",
     [{"PSUTIL_WINDOWS": 1, "_WIN64": 1}, {"PSUTIL_WINDOWS": 1}],
     {"num_handles": r"HandleCount", "ctx_switches": r"ctx_switches",
      "user_time": r"user_time", "kernel_time": r"kernel_time", "create_time": r"create_time",
      "num_threads": r"NumberOfThreads", "io_rcount": r"ReadOperationCount",
      "io_wcount": r"WriteOperationCount", "io_rbytes": r"ReadTransferCount",
      "io_wbytes": r"WriteTransferCount", "io_count_others": r"OtherOperationCount",
      "io_bytes_others": r"OtherTransferCount", "num_page_faults": r"PageFaultCount",
      "peak_wset": r"PeakWorkingSetSize", "wset": r"\bprocess->WorkingSetSize",
      "peak_paged_pool": r"QuotaPeakPagedPoolUsage", "paged_pool": r"QuotaPagedPoolUsage",
      "peak_non_paged_pool": r"QuotaPeakNonPagedPoolUsage",
      "non_paged_pool": r"QuotaNonPagedPoolUsage", "pagefile": r"->PagefileUsage",
      "peak_pagefile": r"PeakPagefileUsage", "mem_private": r"PrivatePageCount"}),
]

# documentation platform words -> platform configurations
DOC_PLATFORMS = {
    "linux": ["linux"], "windows": ["windows"], "macos": ["macos"], "osx": ["macos"],
    "freebsd": ["freebsd"], "openbsd": ["openbsd"], "netbsd": ["netbsd"],
    "bsd": ["freebsd", "openbsd", "netbsd"], "sunos": ["sunos"], "solaris": ["sunos"],
    "aix": ["aix"],
    "unix": ["linux", "macos", "freebsd", "openbsd", "netbsd", "sunos", "aix"],
    "posix": ["linux", "macos", "freebsd", "openbsd", "netbsd", "sunos", "aix"],
}

# Windows psutil_proc_memory_info(): PROCESS_MEMORY_COUNTERS_EX member that each
# pmem field after (rss, vms) documents (docs/index.rst memory_info, Windows row)
WIN_MEMINFO = [
    ("num_page_faults", r"PageFaultCount"), ("peak_wset", r"PeakWorkingSetSize"),
    ("wset", r"(?<!Peak)WorkingSetSize"), ("peak_paged_pool", r"QuotaPeakPagedPoolUsage"),
    ("paged_pool", r"QuotaPagedPoolUsage"), ("peak_nonpaged_pool", r"QuotaPeakNonPagedPoolUsage"),
    ("nonpaged_pool", r"QuotaNonPagedPoolUsage"), ("pagefile", r"(?<!Peak)PagefileUsage"),
    ("peak_pagefile", r"PeakPagefileUsage"), ("private", r"PrivateUsage"),
]

# Windows: SYSTEM_PROCESS_INFORMATION-derived pinfo_map key -> documented field it
# stands in for when the dedicated native call is denied
WIN_PINFO_FIELD = {
    "io_rcount": "read_count", "io_wcount": "write_count", "io_rbytes": "read_bytes",
    "io_wbytes": "write_bytes", "io_count_others": "other_count",
    "io_bytes_others": "other_bytes", "user_time": "user", "kernel_time": "system",
}
