"""Oracle tables for the Linux layer, transcribed from kernel documentation -
NOT from the code under check.

proc(5) /proc/[pid]/stat: index = man-page field number - 3 (position after comm).
"""

# proc(5): (3) state (4) ppid (5) pgrp (6) session (7) tty_nr ... (14) utime
# (15) stime (16) cutime (17) cstime ... (22) starttime ... (39) processor
# (42) delayacct_blkio_ticks
STAT = {"state": 0, "ppid": 1, "pgrp": 2, "session": 3, "tty_nr": 4,
        "utime": 11, "stime": 12, "cutime": 13, "cstime": 14, "priority": 15,
        "nice": 16, "num_threads": 17, "starttime": 19, "vsize": 20, "rss": 21,
        "processor": 36, "delayacct_blkio_ticks": 39}

# first stat column (index after comm) that old / stripped-down kernels may not
# print: delayacct_blkio_ticks is "since Linux 2.6.18" in proc(5) and absent on
# the kernels of psutil issue #2455; everything up to `processor` is mandatory.
STAT_OPTIONAL_FROM = 37

# public API field -> stat field
STAT_API = {
    ("Process.cpu_times", "user"): "utime",
    ("Process.cpu_times", "system"): "stime",
    ("Process.cpu_times", "children_user"): "cutime",
    ("Process.cpu_times", "children_system"): "cstime",
    ("Process.cpu_times", "iowait"): "delayacct_blkio_ticks",
    ("Process.ppid", None): "ppid",
    ("Process.cpu_num", None): "processor",
    ("Process.status", None): "state",
    ("Process.terminal", None): "tty_nr",
    ("Process.create_time", None): "starttime",
}
THREAD_API = {"user_time": "utime", "system_time": "stime"}

# fs/proc/array.c task_state_array + include/linux/sched.h
TASK_STATES = {"R": "STATUS_RUNNING", "S": "STATUS_SLEEPING", "D": "STATUS_DISK_SLEEP",
               "T": "STATUS_STOPPED", "t": "STATUS_TRACING_STOP", "Z": "STATUS_ZOMBIE",
               "X": "STATUS_DEAD", "x": "STATUS_DEAD", "K": "STATUS_WAKE_KILL",
               "W": "STATUS_WAKING", "I": "STATUS_IDLE", "P": "STATUS_PARKED"}
# documented values (docs/index.rst "Process status constants")
STATUS_VALUES = {"STATUS_RUNNING": "running", "STATUS_SLEEPING": "sleeping",
                 "STATUS_DISK_SLEEP": "disk-sleep", "STATUS_STOPPED": "stopped",
                 "STATUS_TRACING_STOP": "tracing-stop", "STATUS_ZOMBIE": "zombie",
                 "STATUS_DEAD": "dead", "STATUS_WAKE_KILL": "wake-kill",
                 "STATUS_WAKING": "waking", "STATUS_IDLE": "idle",
                 "STATUS_PARKED": "parked"}

TASK_COMM_LEN = 16          # include/linux/sched.h; comm holds <= 15 bytes + NUL

# /proc/[pid]/status keys (proc(5)); the first line is "Name:\t<comm>" where only
# '\n' and '\\' are escaped: TAB and ':' may appear verbatim inside comm
STATUS_KEYS = {"uids": "Uid", "gids": "Gid", "num_threads": "Threads",
               "num_ctx_switches": "ctxt_switches", "_get_eligible_cpus": "Cpus_allowed_list"}

# proc(5) /proc/[pid]/status: "Uid, Gid: Real, effective, saved set, and filesystem
# UIDs (GIDs)"; voluntary_ctxt_switches is printed before nonvoluntary_ctxt_switches.
# public field -> (key the pattern must match, which match, which group)
STATUS_SLOTS = {
    ("Process.uids", "real"): ("Uid:", 0, 0), ("Process.uids", "effective"): ("Uid:", 0, 1),
    ("Process.uids", "saved"): ("Uid:", 0, 2),
    ("Process.gids", "real"): ("Gid:", 0, 0), ("Process.gids", "effective"): ("Gid:", 0, 1),
    ("Process.gids", "saved"): ("Gid:", 0, 2),
    ("Process.num_ctx_switches", "voluntary"): ("ctxt_switches:", 0, 0),
    ("Process.num_ctx_switches", "involuntary"): ("ctxt_switches:", 1, 0),
    ("Process.num_threads", None): ("Threads:", 0, 0),
}
# proc(5) /proc/stat keys -> scpustats field (value = column 1 of that line)
PROC_STAT_KEYS = {"ctx_switches": b"ctxt", "interrupts": b"intr", "soft_interrupts": b"softirq"}

# /proc/[pid]/statm (proc(5)): size resident shared text lib data dt  (pages)
STATM = {"vms": 0, "rss": 1, "shared": 2, "text": 3, "lib": 4, "data": 5, "dirty": 6}

# /proc/[pid]/io (Documentation/filesystems/proc.rst)
PROC_IO = {"read_count": b"syscr", "write_count": b"syscw", "read_bytes": b"read_bytes",
           "write_bytes": b"write_bytes", "read_chars": b"rchar", "write_chars": b"wchar"}

# /proc/net/dev header: receive bytes packets errs drop fifo frame compressed
# multicast | transmit bytes packets errs drop fifo colls carrier compressed
NET_DEV = {"bytes_recv": 0, "packets_recv": 1, "errin": 2, "dropin": 3,
           "bytes_sent": 8, "packets_sent": 9, "errout": 10, "dropout": 11}

# Documentation/admin-guide/iostats.rst  (/proc/diskstats, fields after
# "major minor name" start at index 3)
DISKSTATS_FULL = {"read_count": 3, "read_merged_count": 4, "read_sectors": 5,
                  "read_time": 6, "write_count": 7, "write_merged_count": 8,
                  "write_sectors": 9, "write_time": 10, "busy_time": 12}
# 2.6.0-2.6.24 partition lines: major minor name rio rsect wio wsect
DISKSTATS_PART7 = {"read_count": 3, "read_sectors": 4, "write_count": 5, "write_sectors": 6}
# /sys/block/<dev>/stat: same 11 counters from column 0
SYSBLOCK_STAT = {"read_count": 0, "read_merged_count": 1, "read_sectors": 2, "read_time": 3,
                 "write_count": 4, "write_merged_count": 5, "write_sectors": 6,
                 "write_time": 7, "busy_time": 9}

# /proc/stat "cpu" line (proc(5)): user nice system idle iowait irq softirq steal
# guest guest_nice  (ticks)
CPU_FIELDS = ["user", "nice", "system", "idle", "iowait", "irq", "softirq", "steal",
              "guest", "guest_nice"]

# /proc/meminfo keys (kB) used by the documented formulas
MEMINFO = {"total": b"MemTotal:", "free": b"MemFree:", "buffers": b"Buffers:",
           "active": b"Active:", "slab": b"Slab:"}

# include/net/tcp_states.h
TCP_STATES = {"01": "CONN_ESTABLISHED", "02": "CONN_SYN_SENT", "03": "CONN_SYN_RECV",
              "04": "CONN_FIN_WAIT1", "05": "CONN_FIN_WAIT2", "06": "CONN_TIME_WAIT",
              "07": "CONN_CLOSE", "08": "CONN_CLOSE_WAIT", "09": "CONN_LAST_ACK",
              "0A": "CONN_LISTEN", "0B": "CONN_CLOSING"}
CONN_VALUES = {"CONN_ESTABLISHED": "ESTABLISHED", "CONN_SYN_SENT": "SYN_SENT",
               "CONN_SYN_RECV": "SYN_RECV", "CONN_FIN_WAIT1": "FIN_WAIT1",
               "CONN_FIN_WAIT2": "FIN_WAIT2", "CONN_TIME_WAIT": "TIME_WAIT",
               "CONN_CLOSE": "CLOSE", "CONN_CLOSE_WAIT": "CLOSE_WAIT",
               "CONN_LAST_ACK": "LAST_ACK", "CONN_LISTEN": "LISTEN",
               "CONN_CLOSING": "CLOSING", "CONN_NONE": "NONE"}
# /proc/net/{tcp,udp}[6] columns: sl local rem st tx:rx tr:when retrnsmt uid timeout inode
NET_INET = {"laddr": 1, "raddr": 2, "status": 3, "inode": 9}
# /proc/net/unix: Num RefCount Protocol Flags Type St Inode Path
NET_UNIX = {"type": 4, "inode": 6, "path": 7}
